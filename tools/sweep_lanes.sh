#!/bin/bash
# sweep_lanes.sh [lanes] [tier] [seed] [output file name under seeded/] — regression sweep of every stored seeded change, in
# parallel lanes. Each lane owns a scratch worktree of /repo HEAD and a copy of the committed
# /verif (so /repo itself is never touched); a change is applied to the lane's repository, the
# check of its property is run there (VERIF_REPO is honoured only by copies of /verif), and
# the patch is reverted. Result: seeded/SWEEP.txt, one line per change:
#   "<id> <check> exit=<rc> <top signatures>"
# The lanes (and their build output) are removed at the end.
lanes=${1:-4}; tier=${2:-quick}; seed=${3:-1}; outname=${4:-SWEEP.txt}
V=$(cd "$(dirname "$0")/.." && pwd)
base=/tmp/sweep_lanes
rm -rf $base; mkdir -p $base
ids=$(ls -d $V/seeded/C*/ | xargs -n1 basename)
hdr="# sweep of all seeded changes, tier=$tier seed=$seed, harness $(git -C $V rev-parse --short HEAD), repo $(git -C /repo rev-parse --short HEAD), $(date -u +%FT%TZ)"
for k in $(seq 0 $((lanes-1))); do
  (
    L=$base/lane$k
    mkdir -p $L/verif
    git -C $V archive HEAD | tar -x -C $L/verif
    git -C /repo worktree add -q --detach $L/repo HEAD
    i=0
    for id in $ids; do
      i=$((i+1)); [ $((i % lanes)) -eq $k ] || continue
      prop=${id%%-*}
      p=$V/seeded/$id/patch.diff
      if ! git -C $L/repo apply --check $p 2>/dev/null; then
        echo "$id $prop not-applicable (patch does not apply to the current tree)" >> $L/out.txt; continue
      fi
      git -C $L/repo apply $p
      res=$(cd $L/verif && VERIF_REPO=$L/repo VERIF_SEED=$seed VERIF_JOBS=8 timeout 3000 ./check $prop $tier 2>&1; echo "check exit=$?")
      git -C $L/repo checkout -- .
      rc=$(echo "$res" | grep -o 'check exit=[0-9]*' | tail -1)
      sig=$(echo "$res" | grep -o 'sig=[^ ]*' | sort | uniq -c | sort -rn | head -4 | awk '{print $2}' | tr '\n' ' ')
      echo "$id $prop ${rc#check } $sig" >> $L/out.txt
    done
  ) &
done
wait
{ echo "$hdr"; cat $base/lane*/out.txt | sort; echo "# done $(date -u +%FT%TZ)"; } > $V/seeded/$outname
for k in $(seq 0 $((lanes-1))); do git -C /repo worktree remove --force $base/lane$k/repo; done
git -C /repo worktree prune
rm -rf $base
