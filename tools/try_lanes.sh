#!/bin/bash
# try_lanes.sh <suffix> [lanes] [tier] [seed] — like try_batch.sh, but in parallel lanes on
# scratch copies (a worktree of /repo HEAD + a copy of the *working tree* of /verif, so that
# uncommitted harness changes are used). Evaluates /tmp/mut/Cxx-<suffix>.out/patch.diff with
# the check of property Cxx. Output: one line per change on stdout.
sfx=$1; lanes=${2:-4}; tier=${3:-quick}; seed=${4:-1}
V=$(cd "$(dirname "$0")/.." && pwd)
base=/tmp/try_lanes_$sfx
rm -rf $base; mkdir -p $base
ids=$(ls -d /tmp/mut/C*-$sfx.out | xargs -n1 basename | sed 's/\.out$//')
for k in $(seq 0 $((lanes-1))); do
  (
    L=$base/lane$k
    mkdir -p $L/verif
    rsync -a --exclude 'target*' --exclude '.git' --exclude replays $V/ $L/verif/
    git -C /repo worktree add -q --detach $L/repo HEAD
    i=0
    for id in $ids; do
      i=$((i+1)); [ $((i % lanes)) -eq $k ] || continue
      prop=${id%%-*}
      p=/tmp/mut/$id.out/patch.diff
      if ! git -C $L/repo apply --check $p 2>/dev/null; then echo "$id vs $prop: patch does not apply" >> $L/out.txt; continue; fi
      git -C $L/repo apply $p
      res=$(cd $L/verif && VERIF_REPO=$L/repo VERIF_SEED=$seed VERIF_JOBS=8 timeout 3000 ./check $prop $tier 2>&1; echo "check exit=$?")
      git -C $L/repo checkout -- .
      rc=$(echo "$res" | grep -o 'check exit=[0-9]*' | tail -1)
      sig=$(echo "$res" | grep -o 'sig=[^ ]*' | sort | uniq -c | sort -rn | head -4 | awk '{print $2}' | tr '\n' ' ')
      echo "$id vs $prop: $rc $sig" >> $L/out.txt
    done
  ) &
done
wait
cat $base/lane*/out.txt | sort
for k in $(seq 0 $((lanes-1))); do git -C /repo worktree remove --force $base/lane$k/repo; done
git -C /repo worktree prune
rm -rf $base
