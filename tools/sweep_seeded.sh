#!/bin/bash
# sweep_seeded.sh [tier] [seed] — regression sweep: every stored seeded change is applied to /repo
# in turn, the check of its property is run, and the patch is reverted. One line per change in
# seeded/SWEEP.txt: "<id> <check> exit=<rc> <top signatures>". Needs /repo for itself
# (never run concurrently with anything else that builds from /repo).
tier=${1:-quick}; seed=${2:-1}
cd "$(dirname "$0")/.."
out=seeded/SWEEP.txt
echo "# sweep of all seeded changes, tier=$tier seed=$seed, harness $(git rev-parse --short HEAD), repo $(git -C /repo rev-parse --short HEAD), $(date -u +%FT%TZ)" > $out
for d in seeded/C*/; do
  id=$(basename $d)
  prop=${id%%-*}
  if ! git -C /repo apply --check "$PWD/$d/patch.diff" 2>/dev/null; then
    echo "$id $prop not-applicable (patch does not apply to the current tree)" >> $out; continue
  fi
  res=$(timeout 3000 tools/try_mutant.sh "$PWD/$d/patch.diff" $prop $tier $seed 2>&1)
  rc=$(echo "$res" | grep -o 'check exit=[0-9]*' | tail -1)
  sig=$(echo "$res" | grep -o 'sig=[^ ]*' | sort | uniq -c | sort -rn | head -4 | awk '{print $2}' | tr '\n' ' ')
  echo "$id $prop ${rc#check } $sig" >> $out
  if [ -n "$(git -C /repo status --short)" ]; then git -C /repo checkout -- .; echo "# WARNING: /repo was left dirty after $id, reverted" >> $out; fi
done
echo "# done $(date -u +%FT%TZ)" >> $out
