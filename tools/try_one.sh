#!/bin/bash
# try_one.sh <id> [tier] [seed] [prop] — evaluate ONE seeded change (/tmp/mut/<id>.out/patch.diff, or
# seeded/<id>/patch.diff) on scratch copies: a worktree of /repo HEAD + a copy of the working
# tree of /verif, so several can run side by side and /repo itself is never touched.
id=$1; tier=${2:-quick}; seed=${3:-1}; prop=${4:-${id%%-*}}
V=$(cd "$(dirname "$0")/.." && pwd)
p=/tmp/mut/$id.out/patch.diff; [ -f $p ] || p=$V/seeded/$id/patch.diff
L=/tmp/try_one_$id; rm -rf $L; mkdir -p $L/verif
rsync -a --exclude 'target*' --exclude '.git' --exclude replays $V/ $L/verif/
git -C /repo worktree add -q --detach $L/repo HEAD
if git -C $L/repo apply $p 2>/dev/null; then
  res=$(cd $L/verif && VERIF_REPO=$L/repo VERIF_SEED=$seed VERIF_JOBS=${VERIF_JOBS:-6} timeout 3000 ./check $prop $tier 2>&1; echo "check exit=$?")
  rc=$(echo "$res" | grep -o 'check exit=[0-9]*' | tail -1)
  sig=$(echo "$res" | grep -o 'sig=[^ ]*' | sort | uniq -c | sort -rn | head -4 | awk '{print $2}' | tr '\n' ' ')
  echo "$id vs $prop: $rc $sig"
else echo "$id vs $prop: patch does not apply"; fi
git -C /repo worktree remove --force $L/repo; git -C /repo worktree prune; rm -rf $L
