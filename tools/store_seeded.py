#!/usr/bin/env python3
"""store_seeded.py <round-letter> <results.json>

Copies confirmed seeded changes from the sub-agents' output directories
(/tmp/mut/<id>.out: patch.diff, demo_*.rs, notes.json, confirm.log written by
tools/confirm_mutant.sh) into /verif/seeded/<id>/ and writes meta.json.

results.json: { "<id>": {"caught_by": "C02", "observed": "...", "first_missed": bool,
                          "strengthening": "...", "status": "..."} }
"""
import json, os, shutil, sys, glob

rnd, resf = sys.argv[1], sys.argv[2]
res = json.load(open(resf))
root = os.path.dirname(os.path.dirname(os.path.abspath(__file__)))
for mid, r in sorted(res.items()):
    if not mid.endswith('-' + rnd):
        continue
    src = f'/tmp/mut/{mid}.out'
    if not os.path.isdir(src):
        print(mid, 'no source dir'); continue
    try:
        notes = json.load(open(src + '/notes.json'))
    except Exception as e:
        notes = {'summary': f'(notes.json unreadable: {e})'}
    log = open(src + '/confirm.log').read().splitlines() if os.path.exists(src + '/confirm.log') else []
    verdict_lines = [l for l in log if l.startswith(('baseline-with-patch', 'demo-with-patch', 'demo-without-patch'))]
    confirmed = len(verdict_lines) == 3 and not r.get('unconfirmed')
    dst = f'{root}/seeded/{mid}'
    os.makedirs(dst, exist_ok=True)
    shutil.copy(src + '/patch.diff', dst + '/patch.diff')
    for d in glob.glob(src + '/demo_*'):
        shutil.copy(d, dst)
    meta = {
        'id': mid,
        'property': mid.split('-')[0],
        'origin': 'fresh sub-agent given only the property text and a scratch worktree of /repo',
        'summary': notes.get('summary'),
        'needs': notes.get('needs'),
        'files': notes.get('files'),
        'confirmed_by_me': {
            'how': 'tools/confirm_mutant.sh in a scratch worktree of /repo ' + r.get('confirm_base', 'HEAD') + ': patch applies; `cargo test --workspace --no-fail-fast --offline` passes with the patch; the demonstration fails with the patch and passes without it',
            'confirmed': confirmed,
            'log_tail': verdict_lines,
        },
        'caught_by_checks': r.get('caught_by'),
        'observed': r.get('observed'),
        'first_run_missed': bool(r.get('first_missed')),
        'how_run': f'tools/try_mutant.sh seeded/{mid}/patch.diff <check> quick (applies the patch to /repo, runs ./check, reverts)',
    }
    if r.get('strengthening'):
        meta['strengthening_added'] = r['strengthening']
    if r.get('status'):
        meta['status'] = r['status']
    for k in ('caveats', 'incident', 'side_observation_on_unmodified_code', 'rejected_attempt'):
        if k in notes:
            meta['agent_' + k] = notes[k]
    json.dump(meta, open(dst + '/meta.json', 'w'), indent=1)
    print(mid, 'stored', 'confirmed' if confirmed else 'NOT CONFIRMED')
