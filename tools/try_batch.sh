#!/bin/bash
# try_batch.sh <suffix> <id:check[,check...]> ...   e.g. try_batch.sh b C01:C01 C05:C05,C04
sfx=$1; shift
for spec in "$@"; do
  id=${spec%%:*}; checks=${spec#*:}
  for c in ${checks//,/ }; do
    out=$(timeout 3000 /verif/tools/try_mutant.sh /tmp/mut/$id-$sfx.out/patch.diff $c quick 2>&1)
    rc=$(echo "$out" | grep -o 'check exit=[0-9]*' | tail -1)
    sig=$(echo "$out" | grep -o 'sig=[^ ]*' | sort | uniq -c | sort -rn | head -3 | tr '\n' ' ')
    echo "$id-$sfx vs $c: $rc $sig"
  done
done
