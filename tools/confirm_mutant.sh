#!/bin/bash
# confirm_mutant.sh <name> <dir-with patch.diff + demo_*.rs + notes.json> [base-rev, default HEAD]
# Confirms in a scratch worktree of /repo HEAD: patch applies, workspace tests pass with it,
# demo fails with it and passes without it. Writes <dir>/confirm.log; prints a one-line verdict.
set -u
name=$1; src=$2; base=${3:-HEAD}
wt=/tmp/mutconfirm/$name
rm -rf "$wt"; mkdir -p /tmp/mutconfirm
git -C /repo worktree add -q --detach "$wt" "$base" || { echo "$name: worktree failed"; exit 2; }
log=$src/confirm.log; : > "$log"
cd "$wt"
demo=$(ls "$src"/demo_*.rs | head -1)
# where does the demo go?
dest=miniz_oxide/tests/$(basename "$demo")
if grep -q "miniz_oxide_c_api" "$demo"; then dest=tests/$(basename "$demo"); fi
if head -3 "$demo" | grep -q "^// .*\btests/demo" ; then
  hint=$(head -3 "$demo" | grep -oE "(miniz_oxide(_test)?/)?tests/demo_[A-Za-z0-9_]*\.rs" | head -1)
  [ -n "$hint" ] && dest=$hint
fi
export CARGO_NET_OFFLINE=true
# feature flags the demonstration asks for in its header comment (e.g. --features block-boundary)
feat=$(head -5 "$demo" | grep -oE -- "--features[ =][A-Za-z0-9_,-]+" | head -1)
verdict=ok
if ! git apply --check "$src/patch.diff" 2>>"$log"; then echo "$name: PATCH DOES NOT APPLY"; verdict=bad; fi
if [ $verdict = ok ]; then
  git apply "$src/patch.diff"
  echo "== baseline tests with patch" >> "$log"
  if cargo test --workspace --no-fail-fast --offline >> "$log" 2>&1; then echo "baseline-with-patch: pass" >> "$log"; else echo "$name: BASELINE FAILS WITH PATCH"; verdict=bad; fi
  cp "$demo" "$dest"
  dir=$(dirname $(dirname "$dest")); [ "$dir" = "." ] && dir=.
  tname=$(basename "$dest" .rs)
  echo "== demo with patch" >> "$log"
  if (cd "$dir" && cargo test --offline $feat --test "$tname") >> "$log" 2>&1; then echo "$name: DEMO PASSES WITH PATCH (should fail)"; verdict=bad; else echo "demo-with-patch: fails (expected)" >> "$log"; fi
  git checkout -q -- .
  echo "== demo without patch" >> "$log"
  if (cd "$dir" && cargo test --offline $feat --test "$tname") >> "$log" 2>&1; then echo "demo-without-patch: pass (expected)" >> "$log"; else echo "$name: DEMO FAILS WITHOUT PATCH"; verdict=bad; fi
fi
cd /
git -C /repo worktree remove --force "$wt"
[ $verdict = ok ] && echo "$name: CONFIRMED (dest=$dest, base=$base)"
