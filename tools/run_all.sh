#!/bin/bash
# run_all.sh <tier> [seed]  — run every claimed check, print one summary line each
tier=${1:-quick}; seed=${2:-1}
cd "$(dirname "$0")/.."
for id in $(python3 -c "import json;print(' '.join(c['property_id'] for c in json.load(open('MANIFEST.json'))['checks']))"); do
  t0=$(date +%s)
  VERIF_SEED=$seed ./check $id $tier > /tmp/runall-$id-$tier-$seed.log 2>&1; rc=$?
  t1=$(date +%s)
  echo "$id $tier seed=$seed rc=$rc $((t1-t0))s $(grep -E '^(VIOLATION|INCONCLUSIVE|BROKEN|KNOWN-FINDING)' /tmp/runall-$id-$tier-$seed.log | cut -c1-160 | head -3 | tr '\n' '|')"
done
