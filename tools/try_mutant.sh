#!/bin/bash
# try_mutant.sh <patch.diff> <PROP> [tier] [seed]  — apply a seeded change to /repo, run the check, undo.
set -u
patch=$1; prop=$2; tier=${3:-quick}; seed=${4:-1}
cd /repo || exit 2
if [ -n "$(git status --porcelain)" ]; then echo "/repo not clean"; exit 2; fi
git apply "$patch" || { echo "patch does not apply"; exit 2; }
cd /verif
cp -f evidence/$prop.json /tmp/evidence-$prop.bak 2>/dev/null
VERIF_SEED=$seed ./check $prop $tier; rc=$?
git -C /repo checkout -- .
cp -f /tmp/evidence-$prop.bak evidence/$prop.json 2>/dev/null
echo "try_mutant: check exit=$rc"
exit $rc
