#!/usr/bin/env python3
"""Regenerates /verif/MANIFEST.json from the table below (single source of truth)."""
import json
import os
import subprocess

VERIF = os.path.dirname(os.path.dirname(os.path.abspath(__file__)))

# id -> (technique, level text, level note, design ref)
COMMON_NOTE = "trusted: harness/src/refimpl (RFC-only decoder/checksums, cross-checked against system zlib by `mzv selftest`), the workload generators, system zlib 1.2.13 as secondary oracle; only the x86_64 code paths compiled here are observed; hooks (feature verif-hooks) are read-only"

def lvl(what):
    return ("Runtime monitoring of the real code in two build profiles (release; release + debug-assertions + overflow-checks): " + what +
            " The verdict is 'held on the executions observed' (counts, constructs and suspension states are in the evidence file); it is not a proof.")

CHECKS = {
    "C01": ("differential round-trip monitor with three independent decoders",
            lvl("every one-shot compression (sizes 0..64 exhaustively, all 256 levels, every boundary size, large lazy-parse stress inputs, inputs with planted repeats at the far edge of the 32 KiB window or exactly 64 KiB apart, match-dense level-1 inputs that fill the fast compressor's code buffer, seeded random sizes) is judged by panic capture, the crate's own decoder, an RFC-1951 reference decoder and system zlib, and levels > 10 must be byte-identical to level 10."),
            COMMON_NOTE, "DESIGN.md §3 C01"),
    "C02": ("online call monitor + end-of-history stream oracle over generated call schedules",
            lvl("call histories over all 880 configurations x 3 APIs x 8 general schedule families (1-byte outputs, k-byte outputs, empty chunks, every flush kind, flush while pending...) plus 5 directed families (LZ-buffer fills through tiny outputs, inputs sized on the block thresholds with a flush in the same call, 1-byte trickle past 31 KiB, call boundaries straddling every dictionary wrap) are monitored call by call (bounds, status) and the concatenated output must be exactly one stream that the reference decoder and zlib decode to the input; the verif_probe hook shows how many suspensions had pending output / a saved lazy match."),
            COMMON_NOTE, "DESIGN.md §3 C02"),
    "C03": ("grammar-generated valid streams through 10 decoder entry points, reference-model oracle",
            lvl("valid streams with the plaintext known by construction (grammar generator covering 11-15 bit codes, one-symbol codes, empty/stored blocks at all 8 alignments, boundary-crossing runs, len 258, dist 32768, overlaps), plus miniz, zlib and file streams, must decode to the plaintext through every entry point; construct coverage is gated from the reference trace."),
            COMMON_NOTE + "; also built with serde+block-boundary features", "DESIGN.md §3 C03"),
    "C04": ("fault injection (26 targeted RFC violations + mutators + all prefixes) with reference-decoder soundness oracle",
            lvl("whenever a decode reports Done/Ok/StreamEnd the reference decoder with the same window semantics must accept the same bytes with the same consumed count and output; targeted single-fault streams are placed early and deep (>= 14 trailing bytes, fast loop active) and run in flat buffers, 32 KiB rings and rings of 256..16384 bytes (distance beyond the ring), as are unmodified valid streams; every proper prefix must end in NeedsMoreInput / FailedCannotMakeProgress."),
            COMMON_NOTE, "DESIGN.md §3 C04"),
    "C05": ("hostile call-history fuzzing with panic capture, geometry model, clone-twin and CPU-time watchdog",
            lvl("hostile histories (independent input slice, flag set, buffer geometry, budget and buffer identity per call) on one decoder object, the streaming wrapper and the vector functions; oracle: no panic, counts in bounds, unusable geometry <=> BadParam without state change (hook fields + never-BadParam'd clone answering identically), Failed sticky, no library call burns > 120 CPU-s."),
            COMMON_NOTE + "; third variant with block-boundary/serde features", "DESIGN.md §3 C05"),
    "C06": ("exact-consumption monitor over trailing-data workloads and all entry points incl. the C API",
            lvl("valid streams followed by 0..64 unrelated bytes are decoded (zlib also with the checksum ignored) through core flat/ring, inflate() (loop and first-call Finish), tinfl_decompress and mz_inflate under every 2-chunk split / near-end cuts and output budgets that suspend 0..5 bytes before the end; consumed totals must equal the encoded length and nothing may be consumed afterwards."),
            COMMON_NOTE, "DESIGN.md §3 C06"),
    "C07": ("schedule-equivalence monitor: exhaustive cut points and budgets vs the one-call run",
            lvl("for valid, invalid, mutated and truncated inputs the triple (output, final status, consumed) under EVERY single cut point, 1/2/3-byte feeding, budgets {1..5,257..260} and random schedules must equal the one-call run in the same buffer mode (flat, ring 32K/64K); the hook records the distinct (state, status) suspension pairs exercised."),
            COMMON_NOTE, "DESIGN.md §3 C07"),
    "C08": ("canary / shadow-buffer monitor around every decode call",
            lvl("the whole output slice is shadowed and compared after each call; directed histories put a match of every length 3..258 at 7 distance classes -4..+4 bytes around budget end, slice end and ring budget end; status truthfulness (HasMoreOutput => window full, NeedsMoreInput => input consumed) and the limit semantics of the vector functions are asserted."),
            COMMON_NOTE, "DESIGN.md §3 C08"),
    "C09": ("exhaustive header enumeration + trailer/body corruption injection + producer framing monitor",
            lvl("all 65536 two-byte headers are decoded in flat mode and rings 256..65536; trailer corruptions, stored-payload flips and empty payloads run under 7 chunk/budget schedules (incl. zero-length calls and the trailer arriving alone), with and without the ignore flag, through core, inflate() and the vector function; every zlib output of a level x strategy x window_bits x schedule sweep has its header and trailer checked against the reference Adler-32."),
            COMMON_NOTE, "DESIGN.md §3 C09"),
    "C10": ("token-trace monitor: reference decoder parses every compressor output, mode rules on the trace",
            "Runtime monitoring (release build): every one of the 880 configurations is visited repeatedly; the reference decoder's token trace of each output is checked for validity (via acceptance by refimpl and zlib) and for the requested mode (level 0 stored only, HuffmanOnly no match, RLE distance 1, Fixed no dynamic block, Filtered no match < 5), X++X inputs must shrink below 0.75, and single streams of 1100-8400 flushed blocks must stay valid. Held on the executions observed; not a proof.",
            COMMON_NOTE + "; Fixed/Filtered rules only asserted for window_bits >= 12 where with_params keeps the requested strategy (documented substitution below 12)", "DESIGN.md §3 C10"),
    "C11": ("declared-window monitor: CMF vs reference max distance, exact-size ring decode, zlib windowBits=0",
            "Runtime monitoring (release build): zlib compressors over window_bits 8..15 x levels x strategies on inputs whose only redundancy lies beyond 2^w, plus mid-stream level changes and compressors reused after reset(); CINFO, the reference decoder's maximum distance, a decode in a ring of exactly the declared size and zlib told to trust the header must all agree. Held on the executions observed; not a proof.",
            COMMON_NOTE, "DESIGN.md §3 C11"),
    "C12": ("flush-point monitor: exact precondition evaluation, prefix-only reference decode, suffix decode after full flush, twin compressors",
            lvl("directed flush histories over segmented inputs that repeat pre-flush data; at every flush call the property's precondition is evaluated and, when true, the bytes emitted so far alone must decode to all input so far, Sync/Full must end aligned with 00 00 FF FF, the remainder after a Full flush must decode on its own, and [NoSync, Sync] must be equivalent to [Sync]."),
            COMMON_NOTE, "DESIGN.md §3 C12"),
    "C13": ("online checker of a sequential protocol specification over exhaustively enumerated call sequences",
            lvl("a sequential specification of the inflate() protocol, written from the property statement, is evaluated on every call of all 64^3 (quick) / 64^4 (thorough) action sequences for 12 streams (valid, trailing bytes, truncated, corrupt) plus a legal drain, and on random histories with window-wrapping outputs; what the property leaves open (non-Finish after Finish, empty output slice, what follows a failed Finish) is deliberately not asserted."),
            COMMON_NOTE + "; the specification itself (harness/src/mon/c13.rs)", "DESIGN.md §3 C13"),
    "C14": ("online checker of a sequential protocol specification over exhaustively enumerated call sequences + twin compressor",
            lvl("a sequential specification of the deflate() protocol is evaluated on every call of all 48^3 action sequences for 6 inputs x 3 configurations (thorough: all 48^4 sequences for the same inputs and configurations, 237 M monitored calls) followed by a Finish drain and a reference decode of the delivered bytes; refused empty-output calls are checked for side effects through the hook and through a twin history without them; random histories cover all 880 configurations and outputs smaller than a flush marker."),
            COMMON_NOTE + "; the specification itself (harness/src/mon/c14.rs)", "DESIGN.md §3 C14"),
    "C15": ("bound monitor with guard-page destinations of exactly the advertised size",
            "Runtime monitoring (release build): mz_compress2 and mz_deflate(MZ_FINISH) write into guard-page buffers of exactly mz_compressBound(n) / mz_deflateBound(n) bytes for n = 0..300 exhaustively, around every block-size threshold up to 4 MiB (16 MiB thorough) and random sizes, over incompressible and adversarial near-incompressible contents, levels -1..10 and all strategies; minimum slack and maximum expansion are reported. Held on the executions observed; not a proof.",
            COMMON_NOTE, "DESIGN.md §3 C15"),
    "C16": ("definitional reference monitor: every split point, scalar and simd builds, running checksums after every call",
            "Runtime monitoring in three builds (scalar, simd, debug-assertions): the four exported update functions are compared with bytewise/bitwise definitional implementations in one pass and under every split point (<= 2048 bytes) or random multi-way splits with checksum-of-a-prefix start values, and Adler-32 at its modular edges (sums ending on 65521+-2); the running checksums of compressor, zlib decoder and mz_stream are compared after every call of random schedules. Held on the executions observed; not a proof.",
            COMMON_NOTE, "DESIGN.md §3 C16"),
    "C17": ("differential + accounting monitor, guard pages, AddressSanitizer, Miri, valgrind memcheck, fork-isolated misuse matrix",
            "Runtime monitoring under several instruments: every exported C function is driven in lock-step with its Rust counterpart (bytes, status, adler) with exact pointer/avail/total accounting, all caller buffers against PROT_NONE guard pages (native, two build profiles) and again under AddressSanitizer; thorough adds Miri and valgrind memcheck runs of a small workload; a 56-row misuse matrix runs each row in a forked child (crash / unwinding panic attributed to the row). Sanitizer silence is not memory safety; held on the executions observed.",
            COMMON_NOTE + "; ASan via nightly -Zsanitizer=address; Miri cannot cross into libz so its runs have no secondary oracle", "DESIGN.md §3 C17"),
    "C18": ("lock-step twin monitor: object after (history, reset) vs freshly constructed object",
            lvl("after prior histories (ended, abandoned anywhere, failed, error states) an object is reset and driven through a different subsequent stream in lock-step with a fresh object with the same settings, output buffers pre-filled with different garbage; statuses, counts, bytes and exposed checksums must agree call by call for CompressorOxide::reset, mz_deflateReset, InflateState::reset_as(Min/Zero/Full) and reset(), DecompressorOxide::init(), and two fresh compressors must be deterministic."),
            COMMON_NOTE + "; one known finding (MinReset keeps the previous window) is listed in known_findings.json", "DESIGN.md §3 C18"),
    "C19": ("snapshot-substitution monitor: decoder replaced by clone / rmp-serde / serde_json copy between every two calls; block-boundary record checker",
            "Runtime monitoring (miniz_oxide built with serde + block-boundary, two profiles): under 6 schedules in flat and ring mode the decoder object is replaced between every two calls by a clone, an rmp-serde round trip or a serde_json round trip of itself and must reproduce the uninterrupted per-call results; stop-at-block-boundary must report exactly one stop per non-final block of the reference trace with the documented bit fields, and a decoder rebuilt from the boundary record plus the preceding 32 KiB must finish identically. Held on the executions observed; not a proof.",
            COMMON_NOTE, "DESIGN.md §3 C19"),
}

NOT_APPLICABLE = {
    "C20": "static property of the program text / compiler verdict per feature set (forbid(unsafe_code), no_std build, auto-traits): no execution can refute it, and the task fixes the technique to runtime monitoring (DESIGN.md §C20)",
}

PENDING_REASON = "not claimed"


def main():
    props = [json.loads(l) for l in open(os.path.join(VERIF, "properties.jsonl"))]
    hooks_commit = subprocess.run(["git", "-C", "/repo", "log", "--format=%H", "--grep", "^verif hooks"],
                                  stdout=subprocess.PIPE, text=True).stdout.split()
    checks = []
    na = []
    for p in props:
        pid = p["id"]
        if pid in CHECKS:
            tech, text, note, ref = CHECKS[pid]
            checks.append({
                "property_id": pid,
                "quick_cmd": "./check %s quick" % pid,
                "thorough_cmd": "./check %s thorough" % pid,
                "evidence_file": "/verif/evidence/%s.json" % pid,
                "replay_cmd_template": "./check --replay {path}",
                "engine": "mzv",
                "level_claimed": {"category": "exploration", "text": text, "design_ref": ref},
                "level_note": note,
                "technique": "runtime monitoring: " + tech,
            })
        elif pid in NOT_APPLICABLE:
            na.append({"property_id": pid, "reason": NOT_APPLICABLE[pid]})
        else:
            na.append({"property_id": pid, "reason": PENDING_REASON})
    m = {
        "version": 1,
        "setup_cmd": "./check --setup",
        "hooks": {
            "guard": "cargo feature `verif-hooks` on the miniz_oxide crate (off by default)",
            "enable": "the harness crate /verif/harness depends on /repo/miniz_oxide with features=[\"verif-hooks\"]; ./check builds it from /repo's working tree",
            "baseline_off_cmd": "cd /repo && cargo test --workspace --no-fail-fast --offline",
            "source_commits": hooks_commit,
            "add_only": True,
        },
        "engines": [{
            "name": "mzv",
            "path": "/verif/harness",
            "serves_properties": sorted(CHECKS),
            "kind_free_text": "Rust harness: workload generators, reference-model monitors, canary/guard-page monitors, sharded over 16 cores by ./check; variants: release, release+debug-assertions+overflow-checks, serde/block-boundary, simd, ASan; Miri/valgrind for the C shim",
        }],
        "checks": checks,
        "not_applicable": na,
        "notes": "Verdicts are three-valued: exit 0 held on what was observed, exit 1 VIOLATION, exit 2 INCONCLUSIVE (gate/watchdog/oracle disagreement), exit 3 harness broken. Known findings: /verif/known_findings.json.",
    }
    with open(os.path.join(VERIF, "MANIFEST.json"), "w") as fh:
        json.dump(m, fh, indent=1)
        fh.write("\n")
    print("claimed:", sorted(CHECKS), "n/a:", [x["property_id"] for x in na])


if __name__ == "__main__":
    main()
