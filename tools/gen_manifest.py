#!/usr/bin/env python3
"""Regenerates /verif/MANIFEST.json from the table below (single source of truth)."""
import json
import os
import subprocess

VERIF = os.path.dirname(os.path.dirname(os.path.abspath(__file__)))

# id -> (technique, level text, level note, design ref)
CHECKS = {
    "C01": (
        "differential round-trip monitor with three independent decoders",
        "Runtime monitoring: every one-shot compression is executed on the real code in two build profiles and judged by (a) panic capture, (b) the crate's own matching decoder, (c) an RFC-1951 reference decoder sharing no code with the crate and system zlib, (d) byte identity of levels > 10 with level 10. Holds on the executions produced (sizes 0..64 exhaustively, all 256 levels, every boundary size, seeded random sizes), not a proof.",
        "trusted: harness/src/refimpl (self-tested against system zlib), plaintext generators; only x86_64 code paths",
        "DESIGN.md §3 C01",
    ),
}

NOT_APPLICABLE = {
    "C20": "static property of the program text / compiler verdict per feature set (forbid(unsafe_code), no_std build, auto-traits): no execution can refute it, and the task fixes the technique to runtime monitoring (DESIGN.md §C20)",
}

PENDING_REASON = "check not built yet in this session (planned in DESIGN.md §3); not claimed until its monitor runs"


def main():
    props = [json.loads(l) for l in open(os.path.join(VERIF, "properties.jsonl"))]
    hooks_commit = subprocess.run(["git", "-C", "/repo", "log", "--format=%H", "--grep", "^verif hooks"],
                                  stdout=subprocess.PIPE, text=True).stdout.split()
    checks = []
    na = []
    for p in props:
        pid = p["id"]
        if pid in CHECKS:
            tech, text, note, ref = CHECKS[pid]
            checks.append({
                "property_id": pid,
                "quick_cmd": "./check %s quick" % pid,
                "thorough_cmd": "./check %s thorough" % pid,
                "evidence_file": "/verif/evidence/%s.json" % pid,
                "replay_cmd_template": "./check --replay {path}",
                "engine": "mzv",
                "level_claimed": {"category": "exploration", "text": text, "design_ref": ref},
                "level_note": note,
                "technique": "runtime monitoring: " + tech,
            })
        elif pid in NOT_APPLICABLE:
            na.append({"property_id": pid, "reason": NOT_APPLICABLE[pid]})
        else:
            na.append({"property_id": pid, "reason": PENDING_REASON})
    m = {
        "version": 1,
        "setup_cmd": "./check --setup",
        "hooks": {
            "guard": "cargo feature `verif-hooks` on the miniz_oxide crate (off by default)",
            "enable": "the harness crate /verif/harness depends on /repo/miniz_oxide with features=[\"verif-hooks\"]; ./check builds it from /repo's working tree",
            "baseline_off_cmd": "cd /repo && cargo test --workspace --no-fail-fast --offline",
            "source_commits": hooks_commit,
            "add_only": True,
        },
        "engines": [{
            "name": "mzv",
            "path": "/verif/harness",
            "serves_properties": sorted(CHECKS),
            "kind_free_text": "Rust harness: workload generators, reference-model monitors, canary/guard-page monitors, sharded over 16 cores by ./check; variants: release, release+debug-assertions+overflow-checks, serde/block-boundary, simd, ASan; Miri/valgrind for the C shim",
        }],
        "checks": checks,
        "not_applicable": na,
        "notes": "Verdicts are three-valued: exit 0 held on what was observed, exit 1 VIOLATION, exit 2 INCONCLUSIVE (gate/watchdog/oracle disagreement), exit 3 harness broken. Known findings: /verif/known_findings.json.",
    }
    with open(os.path.join(VERIF, "MANIFEST.json"), "w") as fh:
        json.dump(m, fh, indent=1)
        fh.write("\n")
    print("claimed:", sorted(CHECKS), "n/a:", [x["property_id"] for x in na])


if __name__ == "__main__":
    main()
