//! mzv — runtime-monitoring harness for miniz_oxide (see /verif/DESIGN.md).
//!
//!   mzv run <PROP> --tier quick|thorough|tiny --seed N --shard i --nshards n --out FILE
//!           [--only-case K] [--mode M] [--scale F]
//!   mzv selftest [--seed N]

mod ctx;
mod ffi;
mod gen;
mod mon;
mod refimpl;
mod report;
mod rng;
mod selftest;

use ctx::{Ctx, Tier};
use report::Report;

fn usage() -> ! {
    eprintln!("usage: mzv run <PROP> --tier T --seed N --shard i --nshards n --out FILE [--only-case K] [--mode M] [--scale F]\n       mzv selftest [--seed N]");
    std::process::exit(64);
}

fn main() {
    let args: Vec<String> = std::env::args().collect();
    if args.len() < 2 {
        usage();
    }
    ctx::install_panic_hook();
    // The monitors clone and drop compressor / decoder objects (hundreds of KiB each) millions of
    // times. With glibc's defaults every such free at the top of the heap trims it (brk) and the
    // next allocation grows and re-faults it, which dominated the run time of the exhaustive
    // enumerations. Keep freed memory in the process instead.
    #[cfg(all(target_os = "linux", target_env = "gnu", not(miri)))]
    unsafe {
        libc::mallopt(libc::M_TRIM_THRESHOLD, 1 << 30);
        libc::mallopt(libc::M_MMAP_THRESHOLD, 32 << 20);
        libc::mallopt(libc::M_TOP_PAD, 64 << 20);
    }
    let mut seed = 1u64;
    let mut tier = Tier::Quick;
    let mut shard = 0u64;
    let mut nshards = 1u64;
    let mut out: Option<String> = None;
    let mut only_case = None;
    let mut mode = String::new();
    let mut scale = 1.0f64;
    let mut hb: Option<String> = None;
    let mut mem_mb = 3072u64;
    let mut pos: Vec<String> = Vec::new();
    let mut i = 2;
    while i < args.len() {
        let a = &args[i];
        let mut val = || {
            i += 1;
            args.get(i).cloned().unwrap_or_else(|| usage())
        };
        match a.as_str() {
            "--seed" => seed = val().parse().unwrap_or_else(|_| usage()),
            "--tier" => {
                tier = match val().as_str() {
                    "quick" => Tier::Quick,
                    "thorough" => Tier::Thorough,
                    "tiny" => Tier::Tiny,
                    _ => usage(),
                }
            }
            "--shard" => shard = val().parse().unwrap_or_else(|_| usage()),
            "--nshards" => nshards = val().parse().unwrap_or_else(|_| usage()),
            "--out" => out = Some(val()),
            "--only-case" => only_case = Some(val().parse().unwrap_or_else(|_| usage())),
            "--mode" => mode = val(),
            "--scale" => scale = val().parse().unwrap_or_else(|_| usage()),
            "--hb" => hb = Some(val()),
            "--mem-mb" => mem_mb = val().parse().unwrap_or_else(|_| usage()),
            _ => pos.push(a.clone()),
        }
        i += 1;
    }
    match args[1].as_str() {
        "refdecode" => {
            // mzv refdecode <hex> [zlib]  — triage helper: what does the reference decoder say?
            let hex = pos.first().cloned().unwrap_or_default();
            let bytes: Vec<u8> = (0..hex.len() / 2).map(|i| u8::from_str_radix(&hex[2 * i..2 * i + 2], 16).unwrap()).collect();
            let zl = pos.get(1).map(|s| s == "zlib").unwrap_or(false);
            let r = refimpl::inflate::inflate(&bytes, refimpl::inflate::Opts::fmt(zl).with_tokens());
            println!("verdict {:?} out {} bytes", r.verdict, r.out.len());
            for b in &r.blocks {
                println!("block type {} final {} bits {}..{} out {}..{} hlit {} hdist {} hclen {} complete {}\n  cl {:?}\n  litlen {:?}\n  dist {:?}", b.btype, b.bfinal, b.start_bit, b.end_bit, b.out_start, b.out_end, b.hlit, b.hdist, b.hclen, b.complete, b.cl_lens, b.litlen_lens, b.dist_lens);
            }
            println!("tokens {:?}", &r.tokens[..r.tokens.len().min(40)]);
            let mut d = miniz_oxide::inflate::core::DecompressorOxide::new();
            let mut out = vec![0u8; 1 << 20];
            let res = miniz_oxide::inflate::core::decompress(&mut d, &bytes, &mut out, 0, (if zl { 1 } else { 0 }) | 4 | 2);
            println!("miniz_oxide (flat, HAS_MORE_INPUT): {:?} state {}", res, mon::common::state_name(d.verif_state()));
            std::process::exit(0);
        }
        "selftest" => {
            let ok = selftest::run(seed);
            std::process::exit(if ok { 0 } else { 2 });
        }
        "run" => {
            let prop = pos.first().cloned().unwrap_or_else(|| usage());
            let ctx = Ctx { prop: prop.clone(), tier, seed, shard, nshards: nshards.max(1), only_case, mode, scale };
            let mut rep = Report::new(&prop);
            if !cfg!(miri) {
                ctx::limit_memory(mem_mb);
                if let Some(h) = &hb {
                    ctx::open_heartbeat(h);
                }
                ctx::start_watchdog(if cfg!(debug_assertions) { 240.0 } else { 120.0 }, 400.0);
            }
            let known = mon::dispatch(&ctx, &mut rep);
            if !known {
                eprintln!("unknown property {}", prop);
                std::process::exit(64);
            }
            let js = rep.to_json().to_string();
            match out {
                Some(p) => {
                    std::fs::write(&p, js).expect("write report");
                    std::fs::write(format!("{}.hashes", p), rep.hashes_bytes()).expect("write hashes");
                }
                None => println!("{}", js),
            }
            // exit status: 0 ran to completion (verdicts are in the report)
            std::process::exit(0);
        }
        _ => usage(),
    }
}
