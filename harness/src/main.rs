//! mzv — runtime-monitoring harness for miniz_oxide (see /verif/DESIGN.md).
//!
//!   mzv run <PROP> --tier quick|thorough|tiny --seed N --shard i --nshards n --out FILE
//!           [--only-case K] [--mode M] [--scale F]
//!   mzv selftest [--seed N]

mod ctx;
mod ffi;
mod gen;
mod mon;
mod refimpl;
mod report;
mod rng;
mod selftest;

use ctx::{Ctx, Tier};
use report::Report;

fn usage() -> ! {
    eprintln!("usage: mzv run <PROP> --tier T --seed N --shard i --nshards n --out FILE [--only-case K] [--mode M] [--scale F]\n       mzv selftest [--seed N]");
    std::process::exit(64);
}

fn main() {
    let args: Vec<String> = std::env::args().collect();
    if args.len() < 2 {
        usage();
    }
    ctx::install_panic_hook();
    let mut seed = 1u64;
    let mut tier = Tier::Quick;
    let mut shard = 0u64;
    let mut nshards = 1u64;
    let mut out: Option<String> = None;
    let mut only_case = None;
    let mut mode = String::new();
    let mut scale = 1.0f64;
    let mut hb: Option<String> = None;
    let mut mem_mb = 6144u64;
    let mut pos: Vec<String> = Vec::new();
    let mut i = 2;
    while i < args.len() {
        let a = &args[i];
        let mut val = || {
            i += 1;
            args.get(i).cloned().unwrap_or_else(|| usage())
        };
        match a.as_str() {
            "--seed" => seed = val().parse().unwrap_or_else(|_| usage()),
            "--tier" => {
                tier = match val().as_str() {
                    "quick" => Tier::Quick,
                    "thorough" => Tier::Thorough,
                    "tiny" => Tier::Tiny,
                    _ => usage(),
                }
            }
            "--shard" => shard = val().parse().unwrap_or_else(|_| usage()),
            "--nshards" => nshards = val().parse().unwrap_or_else(|_| usage()),
            "--out" => out = Some(val()),
            "--only-case" => only_case = Some(val().parse().unwrap_or_else(|_| usage())),
            "--mode" => mode = val(),
            "--scale" => scale = val().parse().unwrap_or_else(|_| usage()),
            "--hb" => hb = Some(val()),
            "--mem-mb" => mem_mb = val().parse().unwrap_or_else(|_| usage()),
            _ => pos.push(a.clone()),
        }
        i += 1;
    }
    match args[1].as_str() {
        "selftest" => {
            let ok = selftest::run(seed);
            std::process::exit(if ok { 0 } else { 2 });
        }
        "run" => {
            let prop = pos.first().cloned().unwrap_or_else(|| usage());
            let ctx = Ctx { prop: prop.clone(), tier, seed, shard, nshards: nshards.max(1), only_case, mode, scale };
            let mut rep = Report::new(&prop);
            if !cfg!(miri) {
                ctx::limit_memory(mem_mb);
                if let Some(h) = &hb {
                    ctx::open_heartbeat(h);
                }
                ctx::start_watchdog(if cfg!(debug_assertions) { 240.0 } else { 120.0 }, 400.0);
            }
            let known = mon::dispatch(&ctx, &mut rep);
            if !known {
                eprintln!("unknown property {}", prop);
                std::process::exit(64);
            }
            let js = rep.to_json().to_string();
            match out {
                Some(p) => {
                    std::fs::write(&p, js).expect("write report");
                    std::fs::write(format!("{}.hashes", p), rep.hashes_bytes()).expect("write hashes");
                }
                None => println!("{}", js),
            }
            // exit status: 0 ran to completion (verdicts are in the report)
            std::process::exit(0);
        }
        _ => usage(),
    }
}
