//! Reference DEFLATE (RFC 1951) / zlib (RFC 1950) decoder used as the primary oracle.
//!
//! Written from the RFCs only. It shares no code, tables or constants with the crate under
//! test: the length / distance base and extra-bit tables are computed from the RFC's rule, the
//! Huffman decoding is the naive canonical per-length scheme. Besides the output it returns a
//! verdict with a reason, a block / token trace, construct flags (for coverage evidence) and
//! optional taint bits ("this byte derives from window contents preceding the stream").

use super::bitio::BitReader;
use super::checksums::adler32;

#[derive(Clone, Copy, Debug, PartialEq, Eq, Hash)]
pub enum Table {
    CodeLen,
    LitLen,
    Dist,
}

#[derive(Clone, Copy, Debug, PartialEq, Eq, Hash)]
pub enum InvalidKind {
    ReservedBlockType,
    StoredLenMismatch,
    OverSubscribed(Table),
    Incomplete(Table),
    TooManyLitLen,
    TooManyDist,
    RepeatWithoutPrevious,
    RepeatOverflowsCount,
    UndefinedCode(Table),
    LitLen286_287,
    Dist30_31,
    DistanceBeforeStart,
    DistanceBeyondRing,
    BadHeaderMethod,
    BadHeaderWindow,
    BadHeaderDict,
    BadHeaderCheck,
    AdlerMismatch,
}

impl InvalidKind {
    pub fn name(&self) -> String {
        format!("{:?}", self)
    }
}

#[derive(Clone, Copy, Debug, PartialEq, Eq)]
pub enum Verdict {
    /// `consumed` = number of input bytes that belong to the stream (incl. zlib trailer);
    /// `end_bit` = bit position just after the final block's last bit.
    Complete { consumed: usize, end_bit: usize },
    Truncated { at_bit: usize },
    Invalid { kind: InvalidKind, at_bit: usize },
}

impl Verdict {
    pub fn is_complete(&self) -> bool {
        matches!(self, Verdict::Complete { .. })
    }
}

#[derive(Clone, Debug, Default)]
pub struct Block {
    pub btype: u8,
    pub bfinal: bool,
    /// bit position of the BFINAL bit
    pub start_bit: usize,
    /// bit position just after the block's last bit (EOB code / last stored byte)
    pub end_bit: usize,
    pub hlit: u16,
    pub hdist: u16,
    pub hclen: u16,
    pub cl_lens: Vec<u8>,
    pub litlen_lens: Vec<u8>,
    pub dist_lens: Vec<u8>,
    pub stored_len: u32,
    pub out_start: usize,
    pub out_end: usize,
    pub n_lits: u32,
    pub n_matches: u32,
    pub complete: bool,
}

#[derive(Clone, Copy, Debug, PartialEq, Eq)]
pub enum Token {
    Lit(u8),
    Match { len: u16, dist: u16 },
    EndOfBlock,
}

/// Construct flags / statistics (independent of the code under test; used for coverage evidence
/// and for the C10/C11 mode rules).
#[derive(Clone, Debug, Default)]
pub struct Stats {
    pub max_len_litlen: u8,
    pub max_len_dist: u8,
    pub one_symbol_litlen: u32,
    pub one_symbol_dist: u32,
    pub empty_dist: u32,
    pub empty_blocks: u32,
    /// stored blocks by bit offset (0..8) of the block header
    pub stored_at_align: [u32; 8],
    pub boundary_crossing_runs: u32,
    pub len258: u32,
    pub dist32768: u32,
    pub overlaps: u32,
    pub blocks_by_type: [u32; 3],
    pub final_blocks: u32,
    pub n_lits: u64,
    pub n_matches: u64,
    pub max_dist: u32,
    pub min_match_len: u32,
    pub max_match_len: u32,
    /// number of matches with distance != 1
    pub non_dist1: u64,
    /// number of matches reaching before the stream's own output (ring mode only)
    pub before_start_refs: u32,
    pub max_stored_len: u32,
    /// repeat-code usage (16, 17, 18)
    pub rep_codes: [u32; 3],
}

#[derive(Clone, Debug)]
pub struct ZlibInfo {
    pub cmf: u8,
    pub flg: u8,
    pub trailer: Option<u32>,
    pub computed: u32,
}

#[derive(Clone, Debug)]
pub struct Outcome {
    pub verdict: Verdict,
    pub out: Vec<u8>,
    /// parallel to `out` when taint tracking was requested, else empty
    pub taint: Vec<bool>,
    pub blocks: Vec<Block>,
    pub tokens: Vec<Token>,
    pub stats: Stats,
    pub zlib: Option<ZlibInfo>,
}

#[derive(Clone, Copy)]
pub enum Window<'a> {
    /// Flat output: a distance beyond the bytes produced so far is invalid.
    Flat,
    /// Ring of `init.len()` bytes (power of two) with known initial contents; output starts
    /// at ring index `start`. A distance larger than the ring is invalid; otherwise a copy
    /// reaching before the stream start reads the initial contents (tainted).
    Ring { init: &'a [u8], start: usize },
}

#[derive(Clone, Copy)]
pub struct Opts<'a> {
    pub zlib: bool,
    pub window: Window<'a>,
    pub tokens: bool,
    pub taint: bool,
    /// skip the Adler-32 comparison (but still parse the trailer)
    pub ignore_adler: bool,
    /// stop with Truncated-like verdict once more than this many bytes were produced
    pub max_out: usize,
}

impl<'a> Opts<'a> {
    pub fn raw() -> Self {
        Opts {
            zlib: false,
            window: Window::Flat,
            tokens: false,
            taint: false,
            ignore_adler: false,
            max_out: usize::MAX,
        }
    }
    pub fn zlib() -> Self {
        Opts { zlib: true, ..Opts::raw() }
    }
    pub fn fmt(zlib: bool) -> Self {
        Opts { zlib, ..Opts::raw() }
    }
    pub fn with_tokens(mut self) -> Self {
        self.tokens = true;
        self
    }
    pub fn ring(mut self, init: &'a [u8], start: usize) -> Self {
        self.window = Window::Ring { init, start };
        self
    }
    pub fn with_taint(mut self) -> Self {
        self.taint = true;
        self
    }
}

/// Length / distance tables computed from the RFC's construction rule.
pub struct LenDist {
    pub len_base: [u16; 29],
    pub len_extra: [u8; 29],
    pub dist_base: [u32; 30],
    pub dist_extra: [u8; 30],
}

pub fn lendist() -> LenDist {
    let mut t = LenDist {
        len_base: [0; 29],
        len_extra: [0; 29],
        dist_base: [0; 30],
        dist_extra: [0; 30],
    };
    // lengths: codes 257..264 have 0 extra bits; then groups of four codes with 1,2,3,4,5
    // extra bits; code 285 is length 258 with 0 extra bits.
    let mut base = 3u32;
    for i in 0..28 {
        let extra = if i < 8 { 0 } else { (i - 4) / 4 };
        t.len_base[i] = base as u16;
        t.len_extra[i] = extra as u8;
        base += 1 << extra;
    }
    t.len_base[28] = 258;
    t.len_extra[28] = 0;
    // distances: codes 0..3 have 0 extra bits; then groups of two codes with 1..13 extra bits.
    let mut base = 1u32;
    for i in 0..30 {
        let extra = if i < 4 { 0 } else { (i - 2) / 2 };
        t.dist_base[i] = base;
        t.dist_extra[i] = extra as u8;
        base += 1 << extra;
    }
    t
}

/// Canonical Huffman code by per-length counts.
struct Huff {
    count: [u16; 16],
    symbol: Vec<u16>,
    /// for an incomplete code: (value, length) of the canonically last code; a bit pattern that
    /// is not a prefix of any code is reported as undefined as soon as it is read, without
    /// waiting for further input
    last_code: Option<(u32, u32)>,
}

enum HuffBuild {
    Ok(Huff),
    Over,
    /// incomplete; `max_len`, `n_codes`
    Incomplete(Huff, u8, u32),
}

fn build(lens: &[u8]) -> HuffBuild {
    let mut count = [0u16; 16];
    for &l in lens {
        count[l as usize] += 1;
    }
    let n_codes = lens.len() as u32 - count[0] as u32;
    let mut left: i32 = 1;
    let mut over = false;
    let mut max_len = 0u8;
    for len in 1..16 {
        left <<= 1;
        left -= count[len] as i32;
        if left < 0 {
            over = true;
            break;
        }
        if count[len] > 0 {
            max_len = len as u8;
        }
    }
    if over {
        return HuffBuild::Over;
    }
    let mut offs = [0u16; 16];
    for len in 1..15 {
        offs[len + 1] = offs[len] + count[len];
    }
    let mut symbol = vec![0u16; n_codes as usize];
    for (sym, &l) in lens.iter().enumerate() {
        if l != 0 {
            symbol[offs[l as usize] as usize] = sym as u16;
            offs[l as usize] += 1;
        }
    }
    let mut h = Huff { count, symbol, last_code: None };
    if left > 0 && max_len == 0 {
        // no codes at all: every bit pattern is undefined as soon as one bit is read
        h.last_code = Some((0, 0));
    }
    if left > 0 && max_len > 0 {
        // canonical value of the last code of maximum length
        let mut code = 0u32;
        let mut last = 0u32;
        for len in 1..=max_len as usize {
            code = (code + h.count[len - 1] as u32 * (len > 1) as u32) << 1;
            if h.count[len] > 0 {
                last = code + h.count[len] as u32 - 1;
            }
        }
        h.last_code = Some((last, max_len as u32));
    }
    if left > 0 {
        HuffBuild::Incomplete(h, max_len, n_codes)
    } else {
        HuffBuild::Ok(h)
    }
}

enum Dec {
    Sym(u16),
    Eof,
    Undefined,
}

#[inline]
fn decode(h: &Huff, br: &mut BitReader) -> Dec {
    let mut code: i32 = 0;
    let mut first: i32 = 0;
    let mut index: i32 = 0;
    for len in 1..16 {
        let b = match br.bit() {
            Some(b) => b as i32,
            None => return Dec::Eof,
        };
        code |= b;
        let count = h.count[len] as i32;
        if code - count < first {
            return Dec::Sym(h.symbol[(index + (code - first)) as usize]);
        }
        if let Some((last, maxlen)) = h.last_code {
            // dead prefix: larger than the corresponding prefix of the last code, or no longer codes
            if len as u32 >= maxlen || (code as u32) > (last >> (maxlen - len as u32)) {
                return Dec::Undefined;
            }
        }
        index += count;
        first += count;
        first <<= 1;
        code <<= 1;
    }
    Dec::Undefined
}

struct Ctx<'a, 'b> {
    br: BitReader<'a>,
    o: Outcome,
    opts: Opts<'b>,
    ld: LenDist,
}

enum Stop {
    Trunc,
    Inv(InvalidKind),
    Limit,
}

const CL_ORDER_RULE: [u8; 19] = {
    // RFC 1951 §3.2.7: 16, 17, 18, 0, then 8 followed by alternating below / above:
    // 7, 9, 6, 10, 5, 11, 4, 12, 3, 13, 2, 14, 1, 15 (generated, not copied).
    let mut o = [0u8; 19];
    o[0] = 16;
    o[1] = 17;
    o[2] = 18;
    o[3] = 0;
    o[4] = 8;
    let mut j = 5;
    let mut lo = 8i32;
    let mut hi = 8i32;
    while j < 19 {
        lo -= 1;
        o[j] = lo as u8;
        j += 1;
        if j < 19 {
            hi += 1;
            o[j] = hi as u8;
            j += 1;
        }
    }
    o
};

pub fn cl_order() -> [u8; 19] {
    CL_ORDER_RULE
}

impl<'a, 'b> Ctx<'a, 'b> {
    fn push(&mut self, byte: u8, taint: bool) {
        self.o.out.push(byte);
        if self.opts.taint {
            self.o.taint.push(taint);
        }
    }

    fn copy(&mut self, len: usize, dist: usize) -> Result<(), Stop> {
        let produced = self.o.out.len();
        match self.opts.window {
            Window::Flat => {
                if dist > produced {
                    return Err(Stop::Inv(InvalidKind::DistanceBeforeStart));
                }
            }
            Window::Ring { init, .. } => {
                if dist > init.len() {
                    return Err(Stop::Inv(InvalidKind::DistanceBeyondRing));
                }
            }
        }
        if dist > produced {
            self.o.stats.before_start_refs += 1;
        }
        for _ in 0..len {
            let produced = self.o.out.len();
            if dist <= produced {
                let b = self.o.out[produced - dist];
                let t = self.opts.taint && self.o.taint[produced - dist];
                self.push(b, t);
            } else {
                match self.opts.window {
                    Window::Ring { init, start } => {
                        let size = init.len();
                        let idx = (start + produced + size * 2 - dist) % size;
                        self.push(init[idx], true);
                    }
                    Window::Flat => unreachable!(),
                }
            }
        }
        Ok(())
    }

    fn stored(&mut self, blk: &mut Block) -> Result<(), Stop> {
        self.br.align();
        let len = self.br.bits(16).ok_or(Stop::Trunc)?;
        let nlen = self.br.bits(16).ok_or(Stop::Trunc)?;
        if len != (!nlen & 0xffff) {
            return Err(Stop::Inv(InvalidKind::StoredLenMismatch));
        }
        blk.stored_len = len;
        self.o.stats.max_stored_len = self.o.stats.max_stored_len.max(len);
        for _ in 0..len {
            let b = self.br.aligned_byte().ok_or(Stop::Trunc)?;
            self.push(b, false);
            if self.o.out.len() > self.opts.max_out {
                return Err(Stop::Limit);
            }
        }
        if len == 0 {
            self.o.stats.empty_blocks += 1;
        }
        Ok(())
    }

    fn read_dynamic(&mut self, blk: &mut Block) -> Result<(Huff, Option<Huff>), Stop> {
        let hlit = self.br.bits(5).ok_or(Stop::Trunc)? as usize + 257;
        let hdist = self.br.bits(5).ok_or(Stop::Trunc)? as usize + 1;
        let hclen = self.br.bits(4).ok_or(Stop::Trunc)? as usize + 4;
        blk.hlit = hlit as u16;
        blk.hdist = hdist as u16;
        blk.hclen = hclen as u16;
        if hlit > 286 {
            return Err(Stop::Inv(InvalidKind::TooManyLitLen));
        }
        if hdist > 30 {
            return Err(Stop::Inv(InvalidKind::TooManyDist));
        }
        let order = cl_order();
        let mut cl = [0u8; 19];
        for i in 0..hclen {
            cl[order[i] as usize] = self.br.bits(3).ok_or(Stop::Trunc)? as u8;
        }
        blk.cl_lens = cl.to_vec();
        let clh = match build(&cl) {
            HuffBuild::Ok(h) => h,
            HuffBuild::Over => return Err(Stop::Inv(InvalidKind::OverSubscribed(Table::CodeLen))),
            HuffBuild::Incomplete(..) => {
                return Err(Stop::Inv(InvalidKind::Incomplete(Table::CodeLen)))
            }
        };
        let total = hlit + hdist;
        let mut lens = vec![0u8; total];
        let mut i = 0usize;
        while i < total {
            let sym = match decode(&clh, &mut self.br) {
                Dec::Sym(s) => s,
                Dec::Eof => return Err(Stop::Trunc),
                Dec::Undefined => return Err(Stop::Inv(InvalidKind::UndefinedCode(Table::CodeLen))),
            };
            if sym < 16 {
                lens[i] = sym as u8;
                i += 1;
            } else {
                let (val, rep) = match sym {
                    16 => {
                        if i == 0 {
                            return Err(Stop::Inv(InvalidKind::RepeatWithoutPrevious));
                        }
                        let r = 3 + self.br.bits(2).ok_or(Stop::Trunc)? as usize;
                        (lens[i - 1], r)
                    }
                    17 => (0, 3 + self.br.bits(3).ok_or(Stop::Trunc)? as usize),
                    _ => (0, 11 + self.br.bits(7).ok_or(Stop::Trunc)? as usize),
                };
                self.o.stats.rep_codes[(sym - 16) as usize] += 1;
                if i + rep > total {
                    return Err(Stop::Inv(InvalidKind::RepeatOverflowsCount));
                }
                if i < hlit && i + rep > hlit {
                    self.o.stats.boundary_crossing_runs += 1;
                }
                for _ in 0..rep {
                    lens[i] = val;
                    i += 1;
                }
            }
        }
        blk.litlen_lens = lens[..hlit].to_vec();
        blk.dist_lens = lens[hlit..].to_vec();
        let lit = match build(&lens[..hlit]) {
            HuffBuild::Ok(h) => h,
            HuffBuild::Over => return Err(Stop::Inv(InvalidKind::OverSubscribed(Table::LitLen))),
            HuffBuild::Incomplete(h, max_len, _n) => {
                if max_len <= 1 {
                    if max_len == 1 {
                        self.o.stats.one_symbol_litlen += 1;
                    }
                    h
                } else {
                    return Err(Stop::Inv(InvalidKind::Incomplete(Table::LitLen)));
                }
            }
        };
        let dist = match build(&lens[hlit..]) {
            HuffBuild::Ok(h) => Some(h),
            HuffBuild::Over => return Err(Stop::Inv(InvalidKind::OverSubscribed(Table::Dist))),
            HuffBuild::Incomplete(h, max_len, n) => {
                if n == 0 {
                    self.o.stats.empty_dist += 1;
                    None
                } else if max_len == 1 {
                    self.o.stats.one_symbol_dist += 1;
                    Some(h)
                } else {
                    return Err(Stop::Inv(InvalidKind::Incomplete(Table::Dist)));
                }
            }
        };
        let ml = *blk.litlen_lens.iter().max().unwrap_or(&0);
        let md = *blk.dist_lens.iter().max().unwrap_or(&0);
        self.o.stats.max_len_litlen = self.o.stats.max_len_litlen.max(ml);
        self.o.stats.max_len_dist = self.o.stats.max_len_dist.max(md);
        Ok((lit, dist))
    }

    fn codes(&mut self, blk: &mut Block, lit: &Huff, dist: Option<&Huff>) -> Result<(), Stop> {
        let start_out = self.o.out.len();
        loop {
            let sym = match decode(lit, &mut self.br) {
                Dec::Sym(s) => s as usize,
                Dec::Eof => return Err(Stop::Trunc),
                Dec::Undefined => return Err(Stop::Inv(InvalidKind::UndefinedCode(Table::LitLen))),
            };
            if sym < 256 {
                self.push(sym as u8, false);
                blk.n_lits += 1;
                self.o.stats.n_lits += 1;
                if self.opts.tokens {
                    self.o.tokens.push(Token::Lit(sym as u8));
                }
            } else if sym == 256 {
                if self.opts.tokens {
                    self.o.tokens.push(Token::EndOfBlock);
                }
                if self.o.out.len() == start_out {
                    self.o.stats.empty_blocks += 1;
                }
                return Ok(());
            } else {
                if sym > 285 {
                    return Err(Stop::Inv(InvalidKind::LitLen286_287));
                }
                let li = sym - 257;
                let len = self.ld.len_base[li] as usize
                    + self.br.bits(self.ld.len_extra[li] as u32).ok_or(Stop::Trunc)? as usize;
                let dsym = match dist {
                    None => {
                        // empty distance code: undefined as soon as a bit of the code is there
                        self.br.bit().ok_or(Stop::Trunc)?;
                        return Err(Stop::Inv(InvalidKind::UndefinedCode(Table::Dist)));
                    }
                    Some(d) => match decode(d, &mut self.br) {
                        Dec::Sym(s) => s as usize,
                        Dec::Eof => return Err(Stop::Trunc),
                        Dec::Undefined => {
                            return Err(Stop::Inv(InvalidKind::UndefinedCode(Table::Dist)))
                        }
                    },
                };
                if dsym > 29 {
                    return Err(Stop::Inv(InvalidKind::Dist30_31));
                }
                let d = self.ld.dist_base[dsym] as usize
                    + self.br.bits(self.ld.dist_extra[dsym] as u32).ok_or(Stop::Trunc)? as usize;
                self.copy(len, d)?;
                blk.n_matches += 1;
                let st = &mut self.o.stats;
                st.n_matches += 1;
                st.max_dist = st.max_dist.max(d as u32);
                st.max_match_len = st.max_match_len.max(len as u32);
                st.min_match_len = if st.min_match_len == 0 {
                    len as u32
                } else {
                    st.min_match_len.min(len as u32)
                };
                if d != 1 {
                    st.non_dist1 += 1;
                }
                if len == 258 {
                    st.len258 += 1;
                }
                if d == 32768 {
                    st.dist32768 += 1;
                }
                if d < len {
                    st.overlaps += 1;
                }
                if self.opts.tokens {
                    self.o.tokens.push(Token::Match { len: len as u16, dist: d as u16 });
                }
            }
            if self.o.out.len() > self.opts.max_out {
                return Err(Stop::Limit);
            }
        }
    }

    fn fixed_tables() -> (Huff, Huff) {
        // RFC 1951 §3.2.6
        let mut l = [0u8; 288];
        for (i, x) in l.iter_mut().enumerate() {
            *x = if i < 144 {
                8
            } else if i < 256 {
                9
            } else if i < 280 {
                7
            } else {
                8
            };
        }
        let d = [5u8; 32];
        let lit = match build(&l) {
            HuffBuild::Ok(h) => h,
            _ => unreachable!(),
        };
        let dist = match build(&d) {
            HuffBuild::Ok(h) => h,
            _ => unreachable!(),
        };
        (lit, dist)
    }

    fn deflate(&mut self) -> Result<usize, Stop> {
        loop {
            let mut blk = Block { start_bit: self.br.pos, out_start: self.o.out.len(), ..Default::default() };
            let r = (|| -> Result<bool, Stop> {
                let bfinal = self.br.bit().ok_or(Stop::Trunc)? == 1;
                let btype = self.br.bits(2).ok_or(Stop::Trunc)? as u8;
                blk.bfinal = bfinal;
                blk.btype = btype;
                match btype {
                    0 => {
                        self.o.stats.stored_at_align[blk.start_bit & 7] += 1;
                        self.stored(&mut blk)?;
                    }
                    1 => {
                        let (l, d) = Self::fixed_tables();
                        self.codes(&mut blk, &l, Some(&d))?;
                    }
                    2 => {
                        let (l, d) = self.read_dynamic(&mut blk)?;
                        self.codes(&mut blk, &l, d.as_ref())?;
                    }
                    _ => return Err(Stop::Inv(InvalidKind::ReservedBlockType)),
                }
                Ok(bfinal)
            })();
            blk.end_bit = self.br.pos;
            blk.out_end = self.o.out.len();
            match r {
                Ok(fin) => {
                    blk.complete = true;
                    self.o.stats.blocks_by_type[blk.btype as usize] += 1;
                    if fin {
                        self.o.stats.final_blocks += 1;
                    }
                    self.o.blocks.push(blk);
                    if fin {
                        return Ok(self.br.pos);
                    }
                }
                Err(e) => {
                    self.o.blocks.push(blk);
                    return Err(e);
                }
            }
        }
    }
}

/// Decode `data` (which may have unrelated trailing bytes) and report.
pub fn inflate(data: &[u8], opts: Opts) -> Outcome {
    let mut c = Ctx {
        br: BitReader::new(data),
        o: Outcome {
            verdict: Verdict::Truncated { at_bit: 0 },
            out: Vec::new(),
            taint: Vec::new(),
            blocks: Vec::new(),
            tokens: Vec::new(),
            stats: Stats::default(),
            zlib: None,
        },
        opts,
        ld: lendist(),
    };
    let verdict = (|| -> Result<Verdict, Stop> {
        if opts.zlib {
            let cmf = c.br.aligned_byte().ok_or(Stop::Trunc)?;
            let flg = c.br.aligned_byte().ok_or(Stop::Trunc)?;
            c.o.zlib = Some(ZlibInfo { cmf, flg, trailer: None, computed: 1 });
            if cmf & 15 != 8 {
                return Err(Stop::Inv(InvalidKind::BadHeaderMethod));
            }
            if cmf >> 4 > 7 {
                return Err(Stop::Inv(InvalidKind::BadHeaderWindow));
            }
            if flg & 0x20 != 0 {
                return Err(Stop::Inv(InvalidKind::BadHeaderDict));
            }
            if (cmf as u32 * 256 + flg as u32) % 31 != 0 {
                return Err(Stop::Inv(InvalidKind::BadHeaderCheck));
            }
        }
        let end_bit = c.deflate()?;
        c.br.align();
        if opts.zlib {
            let mut t = 0u32;
            for _ in 0..4 {
                t = (t << 8) | c.br.aligned_byte().ok_or(Stop::Trunc)? as u32;
            }
            let computed = adler32(1, &c.o.out);
            if let Some(z) = c.o.zlib.as_mut() {
                z.trailer = Some(t);
                z.computed = computed;
            }
            if t != computed && !opts.ignore_adler {
                return Err(Stop::Inv(InvalidKind::AdlerMismatch));
            }
        }
        Ok(Verdict::Complete { consumed: c.br.pos / 8, end_bit })
    })();
    let at = c.br.pos;
    c.o.verdict = match verdict {
        Ok(v) => v,
        Err(Stop::Trunc) | Err(Stop::Limit) => Verdict::Truncated { at_bit: at },
        Err(Stop::Inv(kind)) => Verdict::Invalid { kind, at_bit: at },
    };
    c.o
}

/// Convenience: decode a complete stream, return output if `Complete`.
pub fn inflate_ok(data: &[u8], zlib: bool) -> Option<(Vec<u8>, usize)> {
    let o = inflate(data, Opts::fmt(zlib));
    match o.verdict {
        Verdict::Complete { consumed, .. } => Some((o.out, consumed)),
        _ => None,
    }
}
