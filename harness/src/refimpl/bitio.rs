//! LSB-first bit reader / writer (RFC 1951 §3.1.1). Independent of the crate under test.

pub struct BitReader<'a> {
    pub data: &'a [u8],
    /// absolute bit position
    pub pos: usize,
}

impl<'a> BitReader<'a> {
    pub fn new(data: &'a [u8]) -> Self {
        BitReader { data, pos: 0 }
    }
    pub fn at_byte(data: &'a [u8], byte: usize) -> Self {
        BitReader { data, pos: byte * 8 }
    }
    #[inline]
    pub fn bit(&mut self) -> Option<u32> {
        let byte = self.pos >> 3;
        if byte >= self.data.len() {
            return None;
        }
        let b = (self.data[byte] >> (self.pos & 7)) & 1;
        self.pos += 1;
        Some(b as u32)
    }
    /// Read n (<= 24) bits, least-significant first.
    #[inline]
    pub fn bits(&mut self, n: u32) -> Option<u32> {
        let mut v = 0u32;
        for i in 0..n {
            v |= self.bit()? << i;
        }
        Some(v)
    }
    pub fn align(&mut self) {
        self.pos = (self.pos + 7) & !7;
    }
    pub fn byte_pos(&self) -> usize {
        (self.pos + 7) >> 3
    }
    /// Read one whole byte; must be aligned.
    pub fn aligned_byte(&mut self) -> Option<u8> {
        debug_assert!(self.pos & 7 == 0);
        let byte = self.pos >> 3;
        if byte >= self.data.len() {
            return None;
        }
        self.pos += 8;
        Some(self.data[byte])
    }
}

#[derive(Default, Clone)]
pub struct BitWriter {
    pub out: Vec<u8>,
    /// number of valid bits in the last byte (0 = aligned)
    pub nbits: usize,
}

impl BitWriter {
    pub fn new() -> Self {
        BitWriter { out: Vec::new(), nbits: 0 }
    }
    pub fn bit_len(&self) -> usize {
        if self.nbits == 0 {
            self.out.len() * 8
        } else {
            (self.out.len() - 1) * 8 + self.nbits
        }
    }
    #[inline]
    pub fn bit(&mut self, b: u32) {
        if self.nbits == 0 {
            self.out.push(0);
        }
        let last = self.out.len() - 1;
        self.out[last] |= ((b & 1) as u8) << self.nbits;
        self.nbits = (self.nbits + 1) & 7;
    }
    /// Write n bits of v, least-significant first (header fields, extra bits).
    pub fn bits(&mut self, v: u32, n: u32) {
        for i in 0..n {
            self.bit((v >> i) & 1);
        }
    }
    /// Write a Huffman code: `len` bits of `code`, most-significant bit first.
    pub fn code(&mut self, code: u32, len: u32) {
        for i in (0..len).rev() {
            self.bit((code >> i) & 1);
        }
    }
    /// Pad with `fill` bits (0 or 1) to the next byte boundary.
    pub fn align_with(&mut self, fill: u32) {
        while self.nbits != 0 {
            self.bit(fill);
        }
    }
    pub fn align(&mut self) {
        self.align_with(0)
    }
    pub fn bytes(&mut self, b: &[u8]) {
        debug_assert!(self.nbits == 0);
        self.out.extend_from_slice(b);
    }
}
