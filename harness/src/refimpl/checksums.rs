//! Definitional Adler-32 (RFC 1950 §8.2) and CRC-32 (ISO 3309 / ITU-T V.42, reflected
//! polynomial 0xEDB88320), written bytewise / bitwise so that nothing is shared with the
//! optimised implementations under test.

pub fn adler32(start: u32, data: &[u8]) -> u32 {
    let mut a = start & 0xffff;
    let mut b = (start >> 16) & 0xffff;
    for &x in data {
        a = (a + x as u32) % 65521;
        b = (b + a) % 65521;
    }
    (b << 16) | a
}

pub fn crc32(start: u32, data: &[u8]) -> u32 {
    let mut c = !start;
    for &x in data {
        c ^= x as u32;
        for _ in 0..8 {
            c = if c & 1 != 0 { (c >> 1) ^ 0xEDB8_8320 } else { c >> 1 };
        }
    }
    !c
}
