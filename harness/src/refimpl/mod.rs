pub mod bitio;
pub mod checksums;
pub mod inflate;
