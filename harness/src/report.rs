//! Shard report: what a run observed. Merged by the `check` orchestrator into the evidence file.
//! Own tiny JSON emitter so the base build needs no serde.

use std::collections::{BTreeMap, BTreeSet, HashSet};
use std::fmt::Write as _;

#[derive(Clone, Debug)]
pub enum Json {
    Null,
    Bool(bool),
    Int(i64),
    UInt(u64),
    Num(f64),
    Str(String),
    Arr(Vec<Json>),
    Obj(Vec<(String, Json)>),
}

impl Json {
    pub fn obj(pairs: Vec<(&str, Json)>) -> Json {
        Json::Obj(pairs.into_iter().map(|(k, v)| (k.to_string(), v)).collect())
    }
    pub fn s(x: &str) -> Json {
        Json::Str(x.to_string())
    }
    pub fn u(x: usize) -> Json {
        Json::UInt(x as u64)
    }
    pub fn hex(b: &[u8]) -> Json {
        Json::Str(hex(b))
    }
    pub fn write(&self, out: &mut String) {
        match self {
            Json::Null => out.push_str("null"),
            Json::Bool(b) => out.push_str(if *b { "true" } else { "false" }),
            Json::Int(i) => {
                let _ = write!(out, "{}", i);
            }
            Json::UInt(i) => {
                let _ = write!(out, "{}", i);
            }
            Json::Num(f) => {
                if f.is_finite() {
                    let _ = write!(out, "{}", f);
                } else {
                    out.push_str("null");
                }
            }
            Json::Str(s) => {
                out.push('"');
                for c in s.chars() {
                    match c {
                        '"' => out.push_str("\\\""),
                        '\\' => out.push_str("\\\\"),
                        '\n' => out.push_str("\\n"),
                        '\r' => out.push_str("\\r"),
                        '\t' => out.push_str("\\t"),
                        c if (c as u32) < 0x20 => {
                            let _ = write!(out, "\\u{:04x}", c as u32);
                        }
                        c => out.push(c),
                    }
                }
                out.push('"');
            }
            Json::Arr(a) => {
                out.push('[');
                for (i, x) in a.iter().enumerate() {
                    if i > 0 {
                        out.push(',');
                    }
                    x.write(out);
                }
                out.push(']');
            }
            Json::Obj(o) => {
                out.push('{');
                for (i, (k, v)) in o.iter().enumerate() {
                    if i > 0 {
                        out.push(',');
                    }
                    Json::Str(k.clone()).write(out);
                    out.push(':');
                    v.write(out);
                }
                out.push('}');
            }
        }
    }
    pub fn to_string(&self) -> String {
        let mut s = String::new();
        self.write(&mut s);
        s
    }
}

pub fn hex(b: &[u8]) -> String {
    let mut s = String::with_capacity(b.len() * 2);
    for x in b {
        let _ = write!(s, "{:02x}", x);
    }
    s
}

/// Hex of at most `n` bytes with a length note.
pub fn hex_short(b: &[u8], n: usize) -> String {
    if b.len() <= n {
        hex(b)
    } else {
        format!("{}...(+{} bytes)", hex(&b[..n]), b.len() - n)
    }
}

#[derive(Clone, Debug)]
pub struct Violation {
    /// signature used for known-finding matching (stable, no seeds)
    pub sig: String,
    pub msg: String,
    pub case: u64,
    pub detail: Json,
}

pub struct Report {
    pub prop: String,
    pub evaluations: u64,
    pub nontrivial: HashSet<u64>,
    pub counters: BTreeMap<String, u64>,
    pub sets: BTreeMap<String, BTreeSet<String>>,
    pub mins: BTreeMap<String, (f64, String)>,
    pub maxs: BTreeMap<String, (f64, String)>,
    pub samples: Vec<Json>,
    pub violations: Vec<Violation>,
    pub inconclusive: Vec<String>,
    pub max_samples: usize,
    pub max_violations: usize,
    pub cur_case: u64,
    pub notes: Vec<String>,
    /// workload gates: counter name -> total required over the whole run (all shards)
    pub gates: BTreeMap<String, u64>,
}

impl Report {
    pub fn new(prop: &str) -> Report {
        Report {
            prop: prop.to_string(),
            evaluations: 0,
            nontrivial: HashSet::new(),
            counters: BTreeMap::new(),
            sets: BTreeMap::new(),
            mins: BTreeMap::new(),
            maxs: BTreeMap::new(),
            samples: Vec::new(),
            violations: Vec::new(),
            inconclusive: Vec::new(),
            max_samples: 3,
            max_violations: 40,
            cur_case: 0,
            notes: Vec::new(),
            gates: BTreeMap::new(),
        }
    }
    pub fn eval(&mut self) {
        self.evaluations += 1;
    }
    pub fn evals(&mut self, n: u64) {
        self.evaluations += n;
    }
    pub fn nontrivial(&mut self, hash: u64) {
        self.nontrivial.insert(hash);
    }
    pub fn count(&mut self, key: &str) {
        self.add(key, 1);
    }
    pub fn add(&mut self, key: &str, n: u64) {
        if let Some(v) = self.counters.get_mut(key) {
            *v += n;
        } else {
            self.counters.insert(key.to_string(), n);
        }
    }
    pub fn get(&self, key: &str) -> u64 {
        self.counters.get(key).copied().unwrap_or(0)
    }
    pub fn set_insert(&mut self, set: &str, item: &str) {
        let s = self.sets.entry(set.to_string()).or_default();
        if s.len() < 5000 {
            s.insert(item.to_string());
        }
    }
    pub fn min(&mut self, key: &str, v: f64, what: &str) {
        match self.mins.get(key) {
            Some((cur, _)) if *cur <= v => {}
            _ => {
                self.mins.insert(key.to_string(), (v, what.to_string()));
            }
        }
    }
    pub fn max(&mut self, key: &str, v: f64, what: &str) {
        match self.maxs.get(key) {
            Some((cur, _)) if *cur >= v => {}
            _ => {
                self.maxs.insert(key.to_string(), (v, what.to_string()));
            }
        }
    }
    pub fn sample(&mut self, j: impl FnOnce() -> Json) {
        if self.samples.len() < self.max_samples {
            let v = j();
            self.samples.push(v);
        }
    }
    pub fn violation(&mut self, sig: &str, msg: String, detail: Json) {
        self.add("violations_total", 1);
        if self.violations.len() < self.max_violations {
            self.violations.push(Violation { sig: sig.to_string(), msg, case: self.cur_case, detail });
        }
    }
    pub fn inconclusive(&mut self, why: String) {
        if self.inconclusive.len() < 50 {
            self.inconclusive.push(why);
        }
    }
    /// Require that counter `name`, summed over all shards, reaches `need`; else inconclusive.
    pub fn gate(&mut self, name: &str, need: u64) {
        self.gates.insert(name.to_string(), need);
    }
    pub fn note(&mut self, s: String) {
        if self.notes.len() < 50 {
            self.notes.push(s);
        }
    }

    pub fn to_json(&self) -> Json {
        let mut hashes: Vec<u64> = self.nontrivial.iter().copied().collect();
        hashes.sort_unstable();
        Json::obj(vec![
            ("prop", Json::s(&self.prop)),
            ("evaluations", Json::UInt(self.evaluations)),
            ("distinct_nontrivial", Json::UInt(self.nontrivial.len() as u64)),
            (
                "counters",
                Json::Obj(self.counters.iter().map(|(k, v)| (k.clone(), Json::UInt(*v))).collect()),
            ),
            (
                "sets",
                Json::Obj(
                    self.sets
                        .iter()
                        .map(|(k, v)| (k.clone(), Json::Arr(v.iter().map(|x| Json::s(x)).collect())))
                        .collect(),
                ),
            ),
            (
                "mins",
                Json::Obj(
                    self.mins
                        .iter()
                        .map(|(k, (v, w))| (k.clone(), Json::Arr(vec![Json::Num(*v), Json::s(w)])))
                        .collect(),
                ),
            ),
            (
                "maxs",
                Json::Obj(
                    self.maxs
                        .iter()
                        .map(|(k, (v, w))| (k.clone(), Json::Arr(vec![Json::Num(*v), Json::s(w)])))
                        .collect(),
                ),
            ),
            ("samples", Json::Arr(self.samples.clone())),
            (
                "violations",
                Json::Arr(
                    self.violations
                        .iter()
                        .map(|v| {
                            Json::obj(vec![
                                ("sig", Json::s(&v.sig)),
                                ("msg", Json::s(&v.msg)),
                                ("case", Json::UInt(v.case)),
                                ("detail", v.detail.clone()),
                            ])
                        })
                        .collect(),
                ),
            ),
            ("inconclusive", Json::Arr(self.inconclusive.iter().map(|x| Json::s(x)).collect())),
            ("notes", Json::Arr(self.notes.iter().map(|x| Json::s(x)).collect())),
            ("gates", Json::Obj(self.gates.iter().map(|(k, v)| (k.clone(), Json::UInt(*v))).collect())),
        ])
    }

    /// Binary sidecar with the distinct non-trivial case hashes (little-endian u64) so that
    /// the orchestrator can count distinct cases across shards.
    pub fn hashes_bytes(&self) -> Vec<u8> {
        let mut v = Vec::with_capacity(self.nontrivial.len() * 8);
        for h in &self.nontrivial {
            v.extend_from_slice(&h.to_le_bytes());
        }
        v
    }
}
