//! Shared engine for the compressor-side monitors (C02, C10, C11, C12): configurations, call
//! schedules, the monitored driver loop and the end-of-history stream oracle.

use crate::ctx::{catch, Panic};
use crate::ffi::zlib::{self, ZResult};
use crate::gen::data;
use crate::refimpl::inflate::{inflate as ref_inflate, Opts, Outcome, Verdict};
use crate::report::{hex_short, Json, Report};
use crate::rng::Rng;
use miniz_oxide::deflate::core::{compress, compress_to_output, CompressionStrategy, CompressorOxide, TDEFLFlush, TDEFLStatus, VerifDeflateProbe};
use miniz_oxide::deflate::stream::deflate;
use miniz_oxide::{DataFormat, MZError, MZFlush, MZStatus};

pub const STRATEGIES: [CompressionStrategy; 5] = [
    CompressionStrategy::Default,
    CompressionStrategy::Filtered,
    CompressionStrategy::HuffmanOnly,
    CompressionStrategy::RLE,
    CompressionStrategy::Fixed,
];

#[derive(Clone, Copy, Debug, PartialEq, Eq)]
pub struct Config {
    pub level: u8,
    pub strategy: CompressionStrategy,
    pub zlib: bool,
    pub wbits: u8,
}

impl Config {
    /// all 880 (level, strategy, format, window_bits) tuples
    pub fn nth(i: u64) -> Config {
        let i = i % 880;
        Config { level: (i % 11) as u8, strategy: STRATEGIES[((i / 11) % 5) as usize], zlib: (i / 55) % 2 == 1, wbits: 8 + ((i / 110) % 8) as u8 }
    }
    pub fn index(&self) -> u64 {
        let s = STRATEGIES.iter().position(|x| *x == self.strategy).unwrap() as u64;
        self.level as u64 + 11 * s + 55 * (self.zlib as u64) + 110 * (self.wbits as u64 - 8)
    }
    pub fn make(&self) -> CompressorOxide {
        CompressorOxide::with_params(if self.zlib { DataFormat::Zlib } else { DataFormat::Raw }, self.level, self.strategy, self.wbits)
    }
    pub fn describe(&self) -> String {
        format!("level {} strategy {:?} {} window_bits {}", self.level, self.strategy, if self.zlib { "zlib" } else { "raw" }, self.wbits)
    }
}

#[derive(Clone, Copy, Debug, PartialEq, Eq)]
pub enum Api {
    Compress,
    CompressToOutput,
    Deflate,
}

pub const TFLUSHES: [TDEFLFlush; 8] = [
    TDEFLFlush::None,
    TDEFLFlush::Partial,
    TDEFLFlush::Sync,
    TDEFLFlush::Full,
    TDEFLFlush::Finish,
    TDEFLFlush::PartialOpt,
    TDEFLFlush::SyncOpt,
    TDEFLFlush::NoSync,
];

pub fn mzflush_of(f: TDEFLFlush) -> MZFlush {
    match f {
        TDEFLFlush::None => MZFlush::None,
        TDEFLFlush::Partial => MZFlush::Partial,
        TDEFLFlush::Sync => MZFlush::Sync,
        TDEFLFlush::Full => MZFlush::Full,
        TDEFLFlush::Finish => MZFlush::Finish,
        _ => MZFlush::Block,
    }
}

#[derive(Clone, Copy, Debug)]
pub struct CStep {
    /// new input bytes made available in this step (in addition to what is still unconsumed)
    pub chunk: usize,
    pub out_len: usize,
    pub flush: TDEFLFlush,
}

#[derive(Clone, Debug)]
pub struct CallEv {
    pub offered: usize,
    pub out_len: usize,
    pub flush: TDEFLFlush,
    /// TDEFLStatus as i32 for compress*, or mapped MZ status for deflate (0 Ok, 1 StreamEnd, <0 error)
    pub status: i32,
    pub consumed: usize,
    pub written: usize,
    pub probe: VerifDeflateProbe,
    pub out_total_after: usize,
    pub in_total_after: usize,
    pub unwritten_bits: u32,
}

#[derive(Clone, Debug)]
pub struct CRun {
    pub out: Vec<u8>,
    pub events: Vec<CallEv>,
    pub consumed_total: usize,
    pub done: bool,
    pub panic: Option<Panic>,
    pub stalled: bool,
    /// first protocol problem noticed by the driver itself (counts out of range, bad status)
    pub fault: Option<(String, String)>,
}

pub fn status_name(api: Api, s: i32) -> String {
    match api {
        Api::Deflate => match s {
            0 => "Ok(Ok)".into(),
            1 => "Ok(StreamEnd)".into(),
            -5 => "Err(Buf)".into(),
            -2 => "Err(Stream)".into(),
            -10000 => "Err(Param)".into(),
            x => format!("Err({})", x),
        },
        _ => match s {
            0 => "Okay".into(),
            1 => "Done".into(),
            -1 => "PutBufFailed".into(),
            -2 => "BadParam".into(),
            x => format!("?{}", x),
        },
    }
}

fn mz_code(r: &Result<MZStatus, MZError>) -> i32 {
    match r {
        Ok(s) => *s as i32,
        Err(e) => *e as i32,
    }
}

/// Drive one compressor through the schedule (then Finish steps until done).
pub fn run_history(c: &mut CompressorOxide, api: Api, plain: &[u8], steps: &[CStep], tail_out: usize) -> CRun {
    let mut run = CRun { out: Vec::new(), events: Vec::new(), consumed_total: 0, done: false, panic: None, stalled: false, fault: None };
    let mut pos = 0usize; // consumed so far
    let mut avail = 0usize; // offered so far (>= pos)
    let mut si = 0usize;
    let mut finishing = false;
    let bound = plain.len() * 3 + steps.len() * 4 + 4096 + plain.len() / tail_out.max(1) * 8;
    let mut calls = 0usize;
    let mut idle = 0usize;
    loop {
        calls += 1;
        if calls > bound + 200_000 || idle > 64 {
            run.stalled = true;
            break;
        }
        let step = if si < steps.len() && !(finishing && steps[si].flush != TDEFLFlush::Finish) {
            let s = steps[si];
            si += 1;
            s
        } else {
            si = steps.len();
            CStep { chunk: plain.len(), out_len: tail_out.max(1), flush: TDEFLFlush::Finish }
        };
        avail = (avail + step.chunk).min(plain.len());
        if step.flush == TDEFLFlush::Finish {
            finishing = true;
            // "Finish" means: this is all the input there is
            avail = plain.len();
        }
        let input = &plain[pos..avail];
        let offered = input.len();
        let mut obuf = vec![0u8; step.out_len];
        let mut cb_out: Vec<u8> = Vec::new();
        let res = catch(|| match api {
            Api::Compress => {
                let r = compress(c, input, &mut obuf, step.flush);
                (r.0 as i32, r.1, r.2)
            }
            Api::CompressToOutput => {
                let r = compress_to_output(c, input, step.flush, |b: &[u8]| {
                    cb_out.extend_from_slice(b);
                    true
                });
                (r.0 as i32, r.1, usize::MAX)
            }
            Api::Deflate => {
                let r = deflate(c, input, &mut obuf, mzflush_of(step.flush));
                (mz_code(&r.status), r.bytes_consumed, r.bytes_written)
            }
        });
        let (st, cons, mut written) = match res {
            Ok(x) => x,
            Err(p) => {
                run.panic = Some(p);
                break;
            }
        };
        if api == Api::CompressToOutput {
            written = cb_out.len();
        }
        if cons > offered && run.fault.is_none() {
            run.fault = Some(("consumed-exceeds-offered".into(), format!("call {}: consumed {} > offered {}", calls, cons, offered)));
        }
        if api != Api::CompressToOutput && written > step.out_len && run.fault.is_none() {
            run.fault = Some(("written-exceeds-space".into(), format!("call {}: written {} > out_len {}", calls, written, step.out_len)));
        }
        let cons = cons.min(offered);
        if api == Api::CompressToOutput {
            run.out.extend_from_slice(&cb_out);
        } else {
            run.out.extend_from_slice(&obuf[..written.min(step.out_len)]);
        }
        pos += cons;
        run.events.push(CallEv {
            offered,
            out_len: step.out_len,
            flush: step.flush,
            status: st,
            consumed: cons,
            written,
            probe: c.verif_probe(),
            out_total_after: run.out.len(),
            in_total_after: pos,
            unwritten_bits: c.unwritten_bit_count(),
        });
        if cons == 0 && written == 0 {
            idle += 1;
        } else {
            idle = 0;
        }
        let done = match api {
            Api::Deflate => st == 1,
            _ => st == 1,
        };
        if done {
            run.done = true;
            break;
        }
        let okay = match api {
            Api::Deflate => st == 0 || st == -5,
            _ => st == 0,
        };
        if !okay {
            if run.fault.is_none() {
                run.fault = Some((format!("status-{}", status_name(api, st)), format!("call {} ({:?}, offered {}, out {}) returned {} on a legal schedule", calls, step.flush, offered, step.out_len, status_name(api, st))));
            }
            break;
        }
    }
    run.consumed_total = pos;
    run
}

pub fn steps_json(steps: &[CStep]) -> Json {
    let shown = steps.len().min(60);
    let mut v: Vec<Json> = steps[..shown].iter().map(|s| Json::s(&format!("+{} out={} {:?}", s.chunk, s.out_len, s.flush))).collect();
    if steps.len() > shown {
        v.push(Json::s(&format!("... {} more steps", steps.len() - shown)));
    }
    Json::Arr(v)
}

pub fn events_tail(api: Api, run: &CRun, n: usize) -> String {
    let k = run.events.len().saturating_sub(n);
    run.events[k..]
        .iter()
        .map(|e| format!("[{:?} in={} out={} -> {} c={} w={} pend={} la={} sml={}]", e.flush, e.offered, e.out_len, status_name(api, e.status), e.consumed, e.written, e.probe.flush_remaining, e.probe.lookahead_size, e.probe.saved_match_len))
        .collect::<Vec<_>>()
        .join(" ")
}

pub fn history_detail(cfg: &Config, api: Api, plain: &[u8], steps: &[CStep], run: &CRun, extra: &str) -> Json {
    Json::obj(vec![
        ("config", Json::s(&cfg.describe())),
        ("api", Json::s(&format!("{:?}", api))),
        ("plain_len", Json::u(plain.len())),
        ("plain_hex", Json::s(&hex_short(plain, 300))),
        ("schedule", steps_json(steps)),
        ("last_calls", Json::s(&events_tail(api, run, 6))),
        ("output_len", Json::u(run.out.len())),
        ("output_hex", Json::s(&hex_short(&run.out, 200))),
        ("note", Json::s(extra)),
    ])
}

/// Plaintext for compressor histories.
pub fn gen_plain(rng: &mut Rng, max: usize) -> (Vec<u8>, usize) {
    let cls = rng.below(data::NUM_CLASSES);
    let n = if rng.chance(1, 6) { *rng.pick(&[0usize, 1, 2, 3, 257, 258, 259, 4095, 4096, 4097]) } else { rng.size_biased(max) };
    let n = n.min(max);
    (data::gen(rng, cls, n), cls)
}

const OUT_SIZES: [usize; 22] = [1, 2, 3, 4, 5, 6, 7, 8, 9, 10, 11, 12, 64, 100, 1000, 4096, 85195, 85196, 85197, 131072, 200_000, 31];

/// Schedule families (all legal: once Finish is issued every later step is Finish).
pub fn gen_schedule(rng: &mut Rng, n: usize, api: Api, family: usize) -> (Vec<CStep>, usize, &'static str) {
    let flushes: Vec<TDEFLFlush> = if api == Api::Deflate {
        vec![TDEFLFlush::None, TDEFLFlush::Partial, TDEFLFlush::Sync, TDEFLFlush::Full]
    } else {
        vec![TDEFLFlush::None, TDEFLFlush::Partial, TDEFLFlush::Sync, TDEFLFlush::Full, TDEFLFlush::PartialOpt, TDEFLFlush::SyncOpt, TDEFLFlush::NoSync]
    };
    let mut steps = Vec::new();
    let mut left = n;
    let big = n > 40_000;
    match family % 8 {
        0 => {
            // one-byte output throughout
            let chunk = if big { 1 + rng.size_biased(n) } else { 1 + rng.size_biased(400) };
            while left > 0 {
                let c = chunk.min(left);
                steps.push(CStep { chunk: c, out_len: 1, flush: if rng.chance(1, 6) { *rng.pick(&flushes) } else { TDEFLFlush::None } });
                left -= c;
            }
            (steps, 1, "one_byte_output")
        }
        1 => {
            // output of exactly k bytes
            let k = 1 + rng.below(12);
            while left > 0 {
                let c = (1 + rng.size_biased(if big { n } else { 2000 })).min(left);
                steps.push(CStep { chunk: c, out_len: k, flush: if rng.chance(1, 4) { *rng.pick(&flushes) } else { TDEFLFlush::None } });
                left -= c;
            }
            (steps, k, "k_byte_output")
        }
        2 => {
            // empty chunks interleaved
            while left > 0 {
                if rng.chance(1, 2) {
                    steps.push(CStep { chunk: 0, out_len: *rng.pick(&OUT_SIZES), flush: *rng.pick(&flushes) });
                }
                let c = (1 + rng.size_biased(5000)).min(left);
                steps.push(CStep { chunk: c, out_len: *rng.pick(&OUT_SIZES), flush: TDEFLFlush::None });
                left -= c;
            }
            (steps, *rng.pick(&OUT_SIZES), "empty_chunks")
        }
        3 => {
            // a flush of every kind after every chunk
            let mut fi = rng.below(flushes.len());
            while left > 0 {
                let c = (1 + rng.size_biased(if big { 40_000 } else { 3000 })).min(left);
                steps.push(CStep { chunk: c, out_len: *rng.pick(&OUT_SIZES), flush: flushes[fi % flushes.len()] });
                fi += 1;
                left -= c;
            }
            (steps, *rng.pick(&OUT_SIZES), "flush_after_every_chunk")
        }
        4 => {
            // flushes while output is still pending: tiny outputs with repeated flush requests
            while left > 0 {
                let c = (1 + rng.size_biased(20_000)).min(left);
                let f = *rng.pick(&flushes);
                steps.push(CStep { chunk: c, out_len: 1 + rng.below(5), flush: f });
                for _ in 0..rng.below(4) {
                    steps.push(CStep { chunk: 0, out_len: 1 + rng.below(5), flush: if rng.bool() { f } else { *rng.pick(&flushes) } });
                }
                left -= c;
            }
            (steps, 1 + rng.below(5), "flush_while_pending")
        }
        5 => {
            // everything at once, finish immediately, small tail output
            steps.push(CStep { chunk: n, out_len: *rng.pick(&OUT_SIZES), flush: TDEFLFlush::Finish });
            (steps, *rng.pick(&[1usize, 7, 300, 512, 4096, 85196, 200_000]), "finish_at_once")
        }
        6 => {
            // first action is a flush with no input
            steps.push(CStep { chunk: 0, out_len: *rng.pick(&OUT_SIZES), flush: *rng.pick(&flushes) });
            while left > 0 {
                let c = (1 + rng.size_biased(n)).min(left);
                steps.push(CStep { chunk: c, out_len: *rng.pick(&OUT_SIZES), flush: *rng.pick(&flushes) });
                left -= c;
            }
            (steps, *rng.pick(&OUT_SIZES), "flush_first")
        }
        _ => {
            // fully random legal schedule
            while left > 0 {
                let c = if rng.chance(1, 8) { 0 } else { (1 + rng.size_biased(n)).min(left) };
                let f = if rng.chance(1, 3) { *rng.pick(&flushes) } else { TDEFLFlush::None };
                steps.push(CStep { chunk: c, out_len: *rng.pick(&OUT_SIZES), flush: f });
                left -= c;
                if rng.chance(1, 12) {
                    break; // early Finish with input remaining
                }
            }
            (steps, *rng.pick(&OUT_SIZES), "random")
        }
    }
}

/// End-of-history oracle: the concatenated output is exactly one stream decoding to the input,
/// for the reference decoder and for zlib. Returns the reference outcome (with tokens) if valid.
pub fn stream_oracle(prop: &str, rep: &mut Report, cfg: &Config, out: &[u8], plain: &[u8], detail: &dyn Fn(&str) -> Json, want_tokens: bool) -> Option<Outcome> {
    let mut o = Opts::fmt(cfg.zlib);
    if want_tokens {
        o = o.with_tokens();
    }
    let r = ref_inflate(out, o);
    let ok = matches!(r.verdict, Verdict::Complete { consumed, .. } if consumed == out.len()) && r.out == plain;
    if !ok {
        let z = zlib::inflate(out, if cfg.zlib { 15 } else { -15 }, 65536, usize::MAX);
        if matches!(&z, ZResult::Ok(o2, used) if o2 == plain && *used == out.len()) {
            rep.inconclusive(format!("{}: reference decoder says {:?} but zlib decodes the output to the input — oracle disagreement ({})", prop, r.verdict, cfg.describe()));
            return None;
        }
        let what = match r.verdict {
            Verdict::Complete { consumed, .. } if r.out == plain => format!("trailing-bytes: stream ends at {} of {} output bytes", consumed, out.len()),
            Verdict::Complete { .. } => format!("wrong-data: decodes to {} bytes, first difference at {:?}", r.out.len(), super::c03::first_diff(&r.out, plain)),
            Verdict::Truncated { at_bit } => format!("truncated: output ends inside the stream at bit {}", at_bit),
            Verdict::Invalid { kind, at_bit } => format!("invalid: {} at bit {}", kind.name(), at_bit),
        };
        rep.violation(&format!("{}:output-{}", prop, what.split(':').next().unwrap_or("bad")), format!("concatenated compressor output is not one stream of the input ({}): {}", cfg.describe(), what), detail(&what));
        return None;
    }
    if r.stats.final_blocks != 1 || !r.blocks.last().map(|b| b.bfinal).unwrap_or(false) {
        rep.violation(&format!("{}:final-block-count", prop), format!("{} final blocks ({})", r.stats.final_blocks, cfg.describe()), detail("final block count"));
        return None;
    }
    if zlib::available() {
        match zlib::inflate(out, if cfg.zlib { 15 } else { -15 }, 65536, usize::MAX) {
            ZResult::Ok(o2, used) if o2 == plain && used == out.len() => rep.count("zlib_agrees"),
            other => {
                let w = match other {
                    ZResult::Ok(o2, u) => format!("ok {} bytes used {}", o2.len(), u),
                    ZResult::Err(c, u, _) => format!("error {} at {}", c, u),
                    ZResult::Truncated(u, _) => format!("truncated at {}", u),
                    ZResult::Absent => "absent".into(),
                };
                rep.violation(&format!("{}:zlib-rejects-output", prop), format!("system zlib does not decode the output to the input ({}): {}", cfg.describe(), w), detail(&w));
                return None;
            }
        }
    }
    Some(r)
}
