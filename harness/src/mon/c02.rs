//! C02 — streaming compression is lossless under every call schedule and configuration.

use super::comp::*;
use crate::ctx::Ctx;
use crate::gen::data;
use crate::report::{Json, Report};
use crate::rng::{Hasher, Rng};
use miniz_oxide::deflate::core::{CompressionStrategy, TDEFLFlush};

pub struct Hist {
    pub cfg: Config,
    pub api: Api,
    pub plain: Vec<u8>,
    pub class: usize,
    pub steps: Vec<CStep>,
    pub tail_out: usize,
    pub family: &'static str,
}

pub fn gen_history(rng: &mut Rng, k: u64, max_plain: usize) -> Hist {
    // stratified over the 880 configurations: consecutive case indices walk through all tuples
    let cfg = Config::nth(k.wrapping_mul(7) + rng.below(880) as u64 * (k % 2));
    let api = match rng.below(5) {
        0 => Api::CompressToOutput,
        1 | 2 => Api::Deflate,
        _ => Api::Compress,
    };
    let (plain, class) = gen_plain(rng, max_plain);
    let fam = rng.below(8);
    let (steps, tail_out, family) = gen_schedule(rng, plain.len(), api, fam);
    Hist { cfg, api, plain, class, steps, tail_out, family }
}

/// Large low-entropy inputs that fill the LZ code buffer several times, compressed at lazy
/// levels through small output buffers: block flushes then regularly cannot deliver their output
/// and the compressor has to suspend with a saved lazy match.
pub fn gen_lzfill(rng: &mut Rng) -> Hist {
    let cfg = Config { level: 4 + rng.below(7) as u8, strategy: *rng.pick(&[CompressionStrategy::Default, CompressionStrategy::Default, CompressionStrategy::Filtered, CompressionStrategy::Fixed]), zlib: rng.bool(), wbits: 15 };
    let n = 300_000 + rng.below(800_000);
    let class = *rng.pick(&[4usize, 5, 11, 16, 16, 3]);
    let plain = if class == 5 && rng.bool() { (0..n).map(|_| b"01234567"[rng.below(8)]).collect() } else { data::gen(rng, class, n) };
    let api = if rng.chance(1, 4) { Api::Deflate } else { Api::Compress };
    let out = *rng.pick(&[1usize, 7, 64, 300, 512, 4096]);
    let steps = if rng.bool() {
        vec![CStep { chunk: n, out_len: out, flush: TDEFLFlush::Finish }]
    } else {
        vec![CStep { chunk: n, out_len: out, flush: TDEFLFlush::None }]
    };
    Hist { cfg, api, plain, class, steps, tail_out: out, family: "lzfill_small_output" }
}

/// Incompressible inputs whose length sits exactly on / next to the compressor's automatic
/// block-flush thresholds (31 KiB + 1 per stored / "fat" block, the LZ code-buffer limit for
/// literal-only data), handed over in one call that also carries a flush request, with an
/// output buffer too small for the block: the automatic block and the requested flush then
/// meet in the same call while output is still pending.
pub fn gen_block_threshold(rng: &mut Rng, k: u64) -> Hist {
    let cfg = Config { level: (k % 11) as u8, strategy: *rng.pick(&STRATEGIES), zlib: rng.bool(), wbits: 15 };
    let base = *rng.pick(&[31_745usize, 31_745, 31_745 * 2, 31_745 * 3, 31_744, 32_768, 58_247, 58_254, 65_528, 65_536]);
    let n = (base as i64 + rng.range(0, 4) as i64 - 2).max(1) as usize;
    let class = *rng.pick(&[6usize, 6, 14, 8]);
    let plain = data::gen(rng, class, n);
    let api = if rng.chance(1, 4) { Api::Deflate } else { Api::Compress };
    let flushes = if api == Api::Deflate { vec![TDEFLFlush::Sync, TDEFLFlush::Full, TDEFLFlush::Partial, TDEFLFlush::Finish] } else { vec![TDEFLFlush::Sync, TDEFLFlush::Full, TDEFLFlush::Partial, TDEFLFlush::Finish, TDEFLFlush::NoSync, TDEFLFlush::SyncOpt, TDEFLFlush::PartialOpt] };
    let out = *rng.pick(&[1usize, 7, 300, 4096, 40_000]);
    let mut steps = Vec::new();
    // optionally deliver the data in two pieces so that the threshold is crossed inside the flush call
    if rng.bool() {
        let cut = rng.below(n);
        steps.push(CStep { chunk: cut, out_len: *rng.pick(&[out, 200_000]), flush: TDEFLFlush::None });
        steps.push(CStep { chunk: n - cut, out_len: out, flush: *rng.pick(&flushes) });
    } else {
        steps.push(CStep { chunk: n, out_len: out, flush: *rng.pick(&flushes) });
    }
    // a few more flush requests while output is pending
    for _ in 0..rng.below(3) {
        steps.push(CStep { chunk: 0, out_len: out, flush: *rng.pick(&flushes) });
    }
    Hist { cfg, api, plain, class, steps, tail_out: out, family: "block_threshold_flush" }
}

/// Input trickled in one (or zero, or two) bytes per call with flush None for more than one
/// window / block threshold, so that every internal threshold is crossed by a call whose input
/// is already exhausted.
pub fn gen_trickle(rng: &mut Rng, k: u64) -> Hist {
    let cfg = Config { level: (k % 11) as u8, strategy: if k % 3 == 0 { *rng.pick(&STRATEGIES) } else { CompressionStrategy::Default }, zlib: rng.bool(), wbits: if rng.chance(1, 4) { 8 + rng.below(8) as u8 } else { 15 } };
    let n = 31_000 + rng.below(40_000);
    let class = *rng.pick(&[6usize, 11, 5, 13, 0]);
    let plain = data::gen(rng, class, n);
    let api = if rng.chance(1, 4) { Api::Deflate } else if rng.chance(1, 5) { Api::CompressToOutput } else { Api::Compress };
    let out = *rng.pick(&[1usize, 64, 4096, 200_000, 200_000]);
    let two = rng.chance(1, 6);
    let mut steps = Vec::with_capacity(n + 8);
    let mut left = n;
    while left > 0 {
        let c = if two && rng.chance(1, 50) { 2.min(left) } else if rng.chance(1, 200) { 0 } else { 1 };
        steps.push(CStep { chunk: c, out_len: out, flush: TDEFLFlush::None });
        left -= c;
    }
    Hist { cfg, api, plain, class, steps, tail_out: out.max(64), family: "trickle_one_byte_input" }
}

/// Call boundaries placed within a few hundred bytes of every multiple of the 32 KiB dictionary
/// size (after an earlier odd-sized call has misaligned the compressor's 4 KiB refills), on data
/// in which almost any trigram has an earlier occurrence: the circular dictionary, its mirrored
/// tail and the hash chains are then updated by calls that straddle the wrap.
pub fn gen_wrap(rng: &mut Rng, k: u64) -> Hist {
    let cfg = Config { level: if k % 2 == 0 { 1 } else { (k % 11) as u8 }, strategy: if k % 4 == 3 { *rng.pick(&STRATEGIES) } else { CompressionStrategy::Default }, zlib: rng.bool(), wbits: 15 };
    let span = if rng.chance(1, 4) { 110_000 } else { 36_000 };
    let n = 33_000 + rng.below(span);
    let class = *rng.pick(&[3usize, 4, 4, 5, 11, 17, 13, 2]);
    let plain = data::gen(rng, class, n);
    let api = match rng.below(5) {
        0 => Api::CompressToOutput,
        1 => Api::Deflate,
        _ => Api::Compress,
    };
    let flushes = [TDEFLFlush::None, TDEFLFlush::None, TDEFLFlush::None, TDEFLFlush::Sync, TDEFLFlush::Partial, TDEFLFlush::Full];
    let out = *rng.pick(&[200_000usize, 200_000, 4096, 64]);
    let mut steps = Vec::new();
    let mut pos = 0usize;
    if rng.chance(3, 4) {
        let lim = 5000.min(n - 1);
        let c = 1 + rng.below(lim);
        steps.push(CStep { chunk: c, out_len: out, flush: *rng.pick(&flushes) });
        pos += c;
    }
    let mut w = 32_768usize;
    while w < n + 300 {
        let target = (w as i64 + rng.range(0, 520) as i64 - 260).max(pos as i64 + 1) as usize;
        if target >= n {
            break;
        }
        // optionally one more cut on the way there
        if rng.chance(1, 3) && target > pos + 2 {
            let c = 1 + rng.below(target - pos - 1);
            steps.push(CStep { chunk: c, out_len: out, flush: *rng.pick(&flushes) });
            pos += c;
        }
        steps.push(CStep { chunk: target - pos, out_len: out, flush: *rng.pick(&flushes) });
        pos = target;
        // sometimes a second cut right behind the first one
        if rng.chance(1, 3) && pos + 300 < n {
            let c = 1 + rng.below(260);
            steps.push(CStep { chunk: c, out_len: out, flush: *rng.pick(&flushes) });
            pos += c;
        }
        w += 32_768;
    }
    if pos < n {
        steps.push(CStep { chunk: n - pos, out_len: out, flush: if rng.bool() { TDEFLFlush::Finish } else { TDEFLFlush::None } });
    }
    Hist { cfg, api, plain, class, steps, tail_out: out.max(64), family: "calls_straddling_dictionary_wrap" }
}

pub fn run_one(prop: &str, rep: &mut Report, h: &Hist) -> Option<(CRun, crate::refimpl::inflate::Outcome)> {
    let mut c = h.cfg.make();
    let run = run_history(&mut c, h.api, &h.plain, &h.steps, h.tail_out);
    rep.eval();
    rep.add("calls", run.events.len() as u64);
    rep.count(&format!("api_{:?}", h.api));
    rep.count(&format!("family_{}", h.family));
    rep.set_insert("configs_visited", &format!("{}", h.cfg.index()));
    let det = |note: &str| history_detail(&h.cfg, h.api, &h.plain, &h.steps, &run, &format!("{} (plaintext class {}, schedule family {})", note, data::CLASS_NAMES[h.class % data::NUM_CLASSES], h.family));
    if let Some(p) = &run.panic {
        rep.violation(&format!("{}:panic:{}", prop, p.site_file()), format!("compressor panicked ({}, {:?}): {}", h.cfg.describe(), h.api, p.text), det("panic"));
        return None;
    }
    if let Some((sig, msg)) = &run.fault {
        rep.violation(&format!("{}:{}", prop, sig), format!("{} ({})", msg, h.cfg.describe()), det("protocol fault"));
        return None;
    }
    if run.stalled || !run.done {
        rep.violation(&format!("{}:no-stream-end", prop), format!("Done/StreamEnd not reached within the logical call bound ({} calls, {} of {} bytes consumed) ({})", run.events.len(), run.consumed_total, h.plain.len(), h.cfg.describe()), det("stalled"));
        return None;
    }
    if run.consumed_total != h.plain.len() {
        rep.violation(&format!("{}:input-not-consumed", prop), format!("stream ended but only {} of {} offered bytes were consumed ({})", run.consumed_total, h.plain.len(), h.cfg.describe()), det("input not consumed"));
        return None;
    }
    let o = stream_oracle(prop, rep, &h.cfg, &run.out, &h.plain, &det, true)?;
    // what the schedule made the compressor go through (hook)
    let mut pending = 0u64;
    let mut saved = 0u64;
    let mut midlz = 0u64;
    for e in &run.events[..run.events.len().saturating_sub(1)] {
        if e.probe.flush_remaining > 0 {
            pending += 1;
        }
        if e.probe.saved_match_len > 0 {
            saved += 1;
        }
        if e.probe.lz_code_position > 1 {
            midlz += 1;
        }
    }
    rep.add("suspensions_with_pending_output", pending);
    rep.add("suspensions_with_saved_lazy_match", saved);
    rep.add("suspensions_mid_lz_buffer", midlz);
    if pending > 0 && saved > 0 && run.events.iter().any(|e| e.probe.flush_remaining > 0 && e.probe.saved_match_len > 0) {
        rep.count("suspensions_with_pending_output_and_saved_match_histories");
    }
    for e in &run.events {
        rep.count(&format!("flush_{:?}", e.flush));
    }
    // (other properties that reuse this driver count their own notion of non-trivial)
    if prop == "C02" && (pending > 0 || saved > 0) {
        let mut hsh = Hasher::new();
        hsh.bytes(&h.plain).u64(h.cfg.index()).u64(h.api as u64);
        for s in &h.steps {
            hsh.u64(s.chunk as u64).u64(s.out_len as u64).u64(s.flush as u64);
        }
        rep.nontrivial(hsh.finish());
        rep.sample(|| det("held"));
    }
    Some((run, o))
}

pub fn run(ctx: &Ctx, rep: &mut Report) {
    let n = ctx.n(10_000, 200_000);
    let n_fill = ctx.n(96, 1500);
    let n_thr = ctx.n(1200, 30_000);
    let n_tr = ctx.n(220, 4000);
    let n_wr = ctx.n(1600, 30_000);
    for k in ctx.cases(n + n_fill + n_thr + n_tr + n_wr) {
        rep.cur_case = k;
        crate::ctx::begin_case(k);
        let mut rng = ctx.rng("case", k);
        let h = if k < n {
            gen_history(&mut rng, k, if ctx.thorough() { 300_000 } else { 120_000 })
        } else if k < n + n_fill {
            gen_lzfill(&mut rng)
        } else if k < n + n_fill + n_thr {
            gen_block_threshold(&mut rng, k)
        } else if k < n + n_fill + n_thr + n_tr {
            gen_trickle(&mut rng, k)
        } else {
            gen_wrap(&mut rng, k)
        };
        let _ = run_one("C02", rep, &h);
    }
    if ctx.only_case.is_none() && ctx.tier != crate::ctx::Tier::Tiny {
        rep.gate("suspensions_with_pending_output", 1000);
        rep.gate("suspensions_with_saved_lazy_match", 100);
    }
    let _ = Json::Null;
}
