//! C05 — decoding arbitrary bytes is total: no panic, no hang, counters within bounds, unusable
//! geometry rejected without touching state, failure is sticky.

use super::common::*;
use crate::ctx::{catch, Ctx};
use crate::gen::{data, faults, grammar};
use crate::report::{hex_short, Json, Report};
use crate::rng::{Hasher, Rng};
use miniz_oxide::inflate::core::{decompress_with_limit, DecompressorOxide};
use miniz_oxide::inflate::stream::{inflate, InflateState};
use miniz_oxide::inflate::{decompress_to_vec_with_limit, decompress_to_vec_zlib_with_limit, TINFLStatus};
use miniz_oxide::{DataFormat, MZFlush};

#[derive(Clone, Debug)]
struct Step {
    in_from: usize,
    in_len: usize,
    flags: u32,
    out_len: usize,
    out_pos: usize,
    budget: usize,
    /// reuse the previous call's buffer (contents kept) instead of a fresh one
    same_buf: bool,
}

fn seed_bytes(rng: &mut Rng) -> (Vec<u8>, &'static str) {
    match rng.below(6) {
        0 => {
            let n = rng.size_biased(400);
            (rng.bytes(n), "random")
        }
        1 | 2 => {
            let zl = rng.bool();
            let g = grammar::random_stream(rng, &grammar::GenOpts::medium(zl));
            (g.bytes, "valid")
        }
        3 => {
            let n = rng.size_biased(70_000);
            let cls = rng.below(data::NUM_CLASSES);
            let p = data::gen(rng, cls, n);
            let lvl = rng.below(11) as u8;
            (if rng.bool() { miniz_oxide::deflate::compress_to_vec_zlib(&p, lvl) } else { miniz_oxide::deflate::compress_to_vec(&p, lvl) }, "valid_miniz")
        }
        4 => {
            let zl = rng.bool();
            let g = grammar::random_stream(rng, &grammar::GenOpts::medium(zl));
            let (m, _) = faults::mutate(rng, &g.bytes, &[]);
            (m, "mutant")
        }
        _ => {
            let kind = *rng.pick(&faults::ALL_KINDS);
            let deep = rng.bool();
            match faults::build(rng, kind, deep) {
                Some(f) => (f.bytes, "targeted"),
                None => (rng.bytes(20), "random"),
            }
        }
    }
}

const OUT_LENS: [usize; 26] = [0, 1, 2, 3, 4, 5, 6, 7, 8, 100, 255, 256, 257, 1000, 1024, 4096, 32767, 32768, 32769, 40000, 65535, 65536, 65537, 70000, 16, 64];

fn gen_step(rng: &mut Rng, total: usize, cursor: usize, hostile: bool) -> Step {
    let in_from = if hostile && rng.chance(1, 4) { rng.below(total + 1) } else { cursor.min(total) };
    let left = total - in_from;
    let in_len = match rng.below(5) {
        0 => left,
        1 => rng.below(left + 1),
        2 => rng.below(left.min(20) + 1),
        3 => 0.min(left),
        _ => rng.below(left.min(300) + 1),
    };
    let flags = if rng.chance(3, 4) {
        // mostly sensible flag sets, bit 4 (flat) coherent across a history is decided by caller
        (rng.below(128) as u32) & !(16 | 32)
    } else {
        rng.below(128) as u32
    };
    let out_len = if rng.chance(1, 3) { rng.size_biased(70_000) } else { *rng.pick(&OUT_LENS) };
    let out_pos = match rng.below(6) {
        0 => 0,
        1 => out_len,
        2 => out_len + 1,
        _ => rng.below(out_len + 2),
    };
    let budget = if rng.bool() { usize::MAX } else { rng.below(601) };
    Step { in_from, in_len, flags, out_len, out_pos, budget, same_buf: rng.chance(2, 3) }
}

fn bad_geometry(flags: u32, out_len: usize, out_pos: usize) -> bool {
    let flat = flags & F_FLAT != 0;
    out_pos > out_len || (!flat && out_len >= 1 && (out_len & (out_len - 1)) != 0)
}

fn steps_json(steps: &[Step]) -> Json {
    Json::Arr(
        steps
            .iter()
            .map(|s| Json::s(&format!("in[{}..+{}] flags={:#x} out_len={} out_pos={} budget={} same_buf={}", s.in_from, s.in_len, s.flags, s.out_len, s.out_pos, if s.budget == usize::MAX { "max".to_string() } else { s.budget.to_string() }, s.same_buf)))
            .collect(),
    )
}

fn core_history(rep: &mut Report, rng: &mut Rng, hostile: bool) {
    let (bytes, class) = seed_bytes(rng);
    rep.count(&format!("seed_{}", class));
    let mut d = DecompressorOxide::new();
    let mut shadow: Option<DecompressorOxide> = None; // clone taken before a BadParam call
    let mut cursor = 0usize;
    let ncalls = 1 + rng.below(16);
    let mut steps: Vec<Step> = Vec::new();
    let mut buf: Vec<u8> = Vec::new();
    let mut shadow_buf: Vec<u8> = Vec::new();
    let mut failed = false;
    let mut reached_body = false;
    // a history keeps one coherent flat/zlib choice most of the time
    let coherent = rng.chance(3, 4);
    let base_flags = (rng.below(128) as u32) & !(16 | 32);
    let det = |steps: &[Step], what: String| Json::obj(vec![("input_hex", Json::s(&hex_short(&bytes, 1200))), ("input_len", Json::u(bytes.len())), ("seed_class", Json::s(class)), ("history", steps_json(steps)), ("what", Json::s(&what))]);
    for ci in 0..ncalls {
        let mut s = gen_step(rng, bytes.len(), cursor, hostile);
        if coherent {
            s.flags = (s.flags & F_MORE) | (base_flags & !F_MORE);
        }
        if !s.same_buf || ci == 0 || buf.len() != s.out_len {
            buf = vec![0u8; s.out_len];
            if rng.bool() {
                rng.fill(&mut buf);
            }
            s.same_buf = false;
        }
        steps.push(s.clone());
        let input = &bytes[s.in_from..s.in_from + s.in_len];
        let bad = bad_geometry(s.flags, s.out_len, s.out_pos);
        let pre = d.clone();
        let pre_fields = (d.verif_state(), d.verif_fields());
        if shadow.is_some() {
            shadow_buf = buf.clone();
        }
        rep.eval();
        rep.count("core_calls");
        let r = catch(|| decompress_with_limit(&mut d, input, &mut buf, s.out_pos, s.budget, s.flags));
        let (st, c, w) = match r {
            Ok(x) => x,
            Err(p) => {
                let state = state_name(pre_fields.0);
                let flat = s.flags & F_FLAT != 0;
                rep.violation(
                    &format!("C05:panic:{}:state={}:{}", p.site_file(), state, if flat { "flat" } else { "ring" }),
                    format!("decompress_with_limit panicked in call {} (decoder was in state {}, fields {:?}): {}", ci + 1, state, pre_fields.1, p.text),
                    det(&steps, format!("call {} panicked", ci + 1)),
                );
                return;
            }
        };
        rep.count(&format!("status_{}", st_name(st)));
        if d.verif_state() >= 12 {
            reached_body = true;
        }
        if c > s.in_len {
            rep.violation("C05:consumed-exceeds-offered", format!("call {}: consumed {} > offered {}", ci + 1, c, s.in_len), det(&steps, String::new()));
            return;
        }
        let room = s.out_len.saturating_sub(s.out_pos);
        if w > room.min(s.budget) {
            rep.violation("C05:written-exceeds-space", format!("call {}: written {} > min(budget {}, space {})", ci + 1, w, s.budget, room), det(&steps, String::new()));
            return;
        }
        rep.count(if bad { "geometry_bad" } else { "geometry_ok" });
        if bad {
            if st != TINFLStatus::BadParam || c != 0 || w != 0 {
                rep.violation("C05:bad-geometry-not-rejected", format!("call {}: out_len {} out_pos {} flags {:#x} is unusable geometry but the call returned ({}, {}, {})", ci + 1, s.out_len, s.out_pos, s.flags, st_name(st), c, w), det(&steps, String::new()));
                return;
            }
            // state untouched: same hook-visible fields, and the untouched clone is driven in lock-step from now on
            if (d.verif_state(), d.verif_fields()) != pre_fields {
                rep.violation("C05:bad-param-touched-state", format!("call {}: BadParam but decoder fields changed {:?} -> {:?}", ci + 1, pre_fields, (d.verif_state(), d.verif_fields())), det(&steps, String::new()));
                return;
            }
            if shadow.is_none() {
                shadow = Some(pre);
                shadow_buf = buf.clone();
            }
            rep.count("bad_param_calls");
            continue;
        } else if st == TINFLStatus::BadParam {
            rep.violation("C05:usable-geometry-rejected", format!("call {}: out_len {} out_pos {} flags {:#x} is usable but BadParam was returned", ci + 1, s.out_len, s.out_pos, s.flags), det(&steps, String::new()));
            return;
        }
        // lock-step twin that did not receive the BadParam call(s)
        if let Some(sh) = shadow.as_mut() {
            let r2 = catch(|| decompress_with_limit(sh, input, &mut shadow_buf, s.out_pos, s.budget, s.flags));
            match r2 {
                Ok(x) if x == (st, c, w) && shadow_buf == buf => rep.count("twin_calls_equal"),
                Ok(x) => {
                    rep.violation("C05:bad-param-touched-state", format!("call {}: after a BadParam call the decoder answers ({}, {}, {}) but a clone that never saw the BadParam call answers ({}, {}, {})", ci + 1, st_name(st), c, w, st_name(x.0), x.1, x.2), det(&steps, String::new()));
                    return;
                }
                Err(_) => {}
            }
        }
        if failed {
            if st != TINFLStatus::Failed || c != 0 || w != 0 {
                rep.violation("C05:failure-not-sticky", format!("call {}: an earlier call returned Failed but this one returned ({}, {}, {})", ci + 1, st_name(st), c, w), det(&steps, String::new()));
                return;
            }
            rep.count("sticky_failure_checked");
        }
        if st == TINFLStatus::Failed {
            failed = true;
        }
        if s.in_from == cursor {
            cursor += c;
        }
    }
    if steps.len() >= 2 && reached_body {
        let mut h = Hasher::new();
        h.bytes(&bytes);
        for s in &steps {
            h.u64(s.in_from as u64).u64(s.in_len as u64).u64(s.flags as u64).u64(s.out_len as u64).u64(s.out_pos as u64).u64(s.budget as u64);
        }
        rep.nontrivial(h.finish());
        rep.sample(|| det(&steps, "history ran to its end without violation".into()));
    }
}

/// Directed: suspend inside a match copy (ring or flat, budget-limited), then resume with a
/// different, smaller flat buffer whose out_pos is smaller than the pending distance.
fn resume_match_history(rep: &mut Report, rng: &mut Rng) {
    let mut b = grammar::Builder::new(false);
    let pre = 20 + rng.below(400);
    let lits = rng.bytes(pre);
    b.lits(&lits);
    let dist = 1 + rng.below(pre);
    let len = 20 + rng.below(239);
    b.mat(len, dist);
    b.lits(b"tail");
    b.end_fixed(true);
    let g = b.finish(0);
    let mut d = DecompressorOxide::new();
    let ring = rng.bool();
    let first_len = if ring { 32768 } else { g.plain.len() + 10 };
    let mut buf1 = vec![0u8; first_len];
    let budget = pre + 1 + rng.below(len - 1);
    let fl1 = if ring { 0 } else { F_FLAT };
    let r1 = catch(|| decompress_with_limit(&mut d, &g.bytes, &mut buf1, 0, budget, fl1 | F_MORE));
    rep.eval();
    rep.count("resume_match_histories");
    let st1 = match r1 {
        Ok(x) => x,
        Err(p) => {
            rep.violation(&format!("C05:panic:{}:first-call", p.site_file()), p.text, Json::obj(vec![("stream_hex", Json::s(&hex_short(&g.bytes, 600)))]));
            return;
        }
    };
    let state = d.verif_state();
    let out_len2 = *rng.pick(&[1usize, 2, 3, 4, 8, 64, 300]);
    let out_pos2 = rng.below(out_len2 + 1);
    let mut buf2 = vec![0u8; out_len2];
    let r2 = catch(|| decompress_with_limit(&mut d, &g.bytes[st1.1..], &mut buf2, out_pos2, usize::MAX, F_FLAT));
    rep.eval();
    let det = || Json::obj(vec![("stream_hex", Json::s(&hex_short(&g.bytes, 600))), ("history", Json::s(&format!("call 1: {} len {} budget {} -> ({}, {}, {}), suspended in state {}; call 2: fresh flat buffer len {} out_pos {} (pending match distance {})", if ring { "ring" } else { "flat" }, first_len, budget, st_name(st1.0), st1.1, st1.2, state_name(state), out_len2, out_pos2, dist)))]);
    match r2 {
        Ok((_, c, w)) => {
            if w > out_len2 - out_pos2 || c > g.bytes.len() - st1.1 {
                rep.violation("C05:written-exceeds-space", format!("resume call wrote {} into {} bytes of space", w, out_len2 - out_pos2), det());
            }
            if state == 19 {
                rep.count("resumed_in_WriteLenBytesToEnd");
                let mut h = Hasher::new();
                h.bytes(&g.bytes).u64(out_len2 as u64).u64(out_pos2 as u64).u64(budget as u64);
                rep.nontrivial(h.finish());
            }
        }
        Err(p) => {
            rep.violation(
                &format!("C05:panic:{}:state={}:flat", p.site_file(), state_name(state)),
                format!("resuming a suspended match copy with a flat buffer (len {}, out_pos {}) smaller than the pending distance {} panicked: {}", out_len2, out_pos2, dist, p.text),
                det(),
            );
        }
    }
}

fn wrapper_history(rep: &mut Report, rng: &mut Rng) {
    let (bytes, class) = seed_bytes(rng);
    let fmt = *rng.pick(&[DataFormat::Raw, DataFormat::Zlib, DataFormat::ZLibIgnoreChecksum]);
    let mut st = InflateState::new_boxed(fmt);
    let mut cursor = 0usize;
    let n = 1 + rng.below(16);
    let mut log = Vec::new();
    for ci in 0..n {
        let from = if rng.chance(1, 5) { rng.below(bytes.len() + 1) } else { cursor.min(bytes.len()) };
        let len = rng.below(bytes.len() - from + 1);
        let out_len = if rng.bool() { rng.size_biased(70_000) } else { *rng.pick(&[0usize, 1, 2, 3, 100, 32768, 40000]) };
        let flush = *rng.pick(&[MZFlush::None, MZFlush::Sync, MZFlush::Finish, MZFlush::Full, MZFlush::Partial, MZFlush::Block]);
        let mut out = vec![0u8; out_len];
        log.push(format!("in[{}..+{}] out_len={} flush={:?}", from, len, out_len, flush));
        rep.eval();
        rep.count("wrapper_calls");
        match catch(|| inflate(&mut st, &bytes[from..from + len], &mut out, flush)) {
            Ok(r) => {
                if r.bytes_consumed > len || r.bytes_written > out_len {
                    rep.violation("C05:wrapper-counts-exceed-buffers", format!("call {}: consumed {} of {}, written {} of {}", ci + 1, r.bytes_consumed, len, r.bytes_written, out_len), Json::obj(vec![("input_hex", Json::s(&hex_short(&bytes, 1200))), ("history", Json::Arr(log.iter().map(|x| Json::s(x)).collect()))]));
                    return;
                }
                if from == cursor {
                    cursor += r.bytes_consumed;
                }
            }
            Err(p) => {
                rep.violation(&format!("C05:panic:{}:inflate", p.site_file()), format!("inflate() panicked in call {}: {}", ci + 1, p.text), Json::obj(vec![("input_hex", Json::s(&hex_short(&bytes, 1200))), ("seed_class", Json::s(class)), ("format", Json::s(&format!("{:?}", fmt))), ("history", Json::Arr(log.iter().map(|x| Json::s(x)).collect()))]));
                return;
            }
        }
    }
    if n >= 2 {
        let mut h = Hasher::new();
        h.bytes(&bytes);
        for l in &log {
            h.bytes(l.as_bytes());
        }
        rep.nontrivial(h.finish());
    }
}

fn vector_total(rep: &mut Report, rng: &mut Rng) {
    let (bytes, class) = seed_bytes(rng);
    let limit = *rng.pick(&[0usize, 1, 100, 70_000, 1 << 20]);
    for zl in [false, true] {
        rep.eval();
        rep.count("vector_calls");
        if let Err(p) = catch(|| if zl { decompress_to_vec_zlib_with_limit(&bytes, limit).map(|_| ()).map_err(|_| ()) } else { decompress_to_vec_with_limit(&bytes, limit).map(|_| ()).map_err(|_| ()) }) {
            rep.violation(&format!("C05:panic:{}:to_vec", p.site_file()), format!("decompress_to_vec_with_limit panicked: {}", p.text), Json::obj(vec![("input_hex", Json::s(&hex_short(&bytes, 1200))), ("seed_class", Json::s(class)), ("limit", Json::u(limit))]));
        }
    }
}

/// Exhaustive first-call grid: flags(128) x out_len(16) x out_pos(5).
fn first_call_grid(rep: &mut Report, rng: &mut Rng) {
    let (bytes, _) = seed_bytes(rng);
    let lens = [0usize, 1, 2, 3, 4, 5, 7, 8, 255, 256, 1000, 1024, 32768, 32769, 65536, 70000];
    for flags in 0..128u32 {
        for &ol in &lens {
            for op in [0usize, 1, ol / 2, ol, ol + 1] {
                let mut d = DecompressorOxide::new();
                let mut buf = vec![0u8; ol];
                rep.eval();
                rep.count("grid_calls");
                let bad = bad_geometry(flags, ol, op);
                match catch(|| decompress_with_limit(&mut d, &bytes, &mut buf, op, usize::MAX, flags)) {
                    Ok((st, c, w)) => {
                        let ok = if bad { st == TINFLStatus::BadParam && c == 0 && w == 0 && d.verif_state() == 0 } else { st != TINFLStatus::BadParam && c <= bytes.len() && w <= ol - op };
                        if !ok {
                            rep.violation("C05:grid", format!("first call flags {:#x} out_len {} out_pos {}: ({}, {}, {}) with geometry {}", flags, ol, op, st_name(st), c, w, if bad { "unusable" } else { "usable" }), Json::obj(vec![("input_hex", Json::s(&hex_short(&bytes, 600)))]));
                            return;
                        }
                    }
                    Err(p) => {
                        rep.violation(&format!("C05:panic:{}:grid", p.site_file()), format!("first call flags {:#x} out_len {} out_pos {} panicked: {}", flags, ol, op, p.text), Json::obj(vec![("input_hex", Json::s(&hex_short(&bytes, 600)))]));
                        return;
                    }
                }
            }
        }
    }
    rep.count("exhaustive_first_call_grids");
}

pub fn run(ctx: &Ctx, rep: &mut Report) {
    let n_hist = ctx.n(120_000, 3_000_000);
    let n_res = ctx.n(20_000, 400_000);
    let n_wrap = ctx.n(20_000, 400_000);
    let n_vec = ctx.n(4_000, 60_000);
    let n_grid = ctx.n(40, 400);
    // batches of 500 histories per case index keep per-case overhead and replay granularity sane
    const B: u64 = 200;
    let total = (n_hist + n_res + n_wrap + n_vec) / B + n_grid;
    let hist_cases = n_hist / B;
    let res_cases = n_res / B;
    let wrap_cases = n_wrap / B;
    let vec_cases = n_vec / B;
    for k in ctx.cases(total) {
        rep.cur_case = k;
        crate::ctx::begin_case(k);
        let mut rng = ctx.rng("case", k);
        if k < hist_cases {
            for i in 0..B {
                let mut r = rng.fork();
                core_history(rep, &mut r, i % 3 != 0);
                if rep.violations.len() >= rep.max_violations {
                    return;
                }
            }
        } else if k < hist_cases + res_cases {
            for _ in 0..B {
                let mut r = rng.fork();
                resume_match_history(rep, &mut r);
            }
        } else if k < hist_cases + res_cases + wrap_cases {
            for _ in 0..B {
                let mut r = rng.fork();
                wrapper_history(rep, &mut r);
            }
        } else if k < hist_cases + res_cases + wrap_cases + vec_cases {
            for _ in 0..B {
                let mut r = rng.fork();
                vector_total(rep, &mut r);
            }
        } else {
            first_call_grid(rep, &mut rng);
        }
    }
}
