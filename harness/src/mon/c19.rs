//! C19 — decoder snapshots resume identically: clone, serialisation, block boundary.
//! Needs the `full` harness feature (miniz_oxide with serde + block-boundary).

#![cfg(feature = "full")]

use super::c07::{gen_input, Input};
use super::common::*;
use crate::ctx::{catch, Ctx};
use crate::gen::grammar;
use crate::refimpl::inflate::{inflate as ref_inflate, Opts};
use crate::report::{hex_short, Json, Report};
use crate::rng::{Hasher, Rng};
use miniz_oxide::inflate::core::inflate_flags::TINFL_FLAG_STOP_ON_BLOCK_BOUNDARY;
use miniz_oxide::inflate::core::{decompress_with_limit, DecompressorOxide};
use miniz_oxide::inflate::stream::{inflate, InflateState};
use miniz_oxide::inflate::TINFLStatus;
use miniz_oxide::MZFlush;

#[derive(Clone, Copy, Debug, PartialEq, Eq)]
enum Snap {
    None,
    Clone,
    Rmp,
    Json,
    Mixed,
}

fn restore(d: &DecompressorOxide, kind: Snap, i: usize) -> Result<DecompressorOxide, String> {
    let k = if kind == Snap::Mixed { [Snap::Clone, Snap::Rmp, Snap::Json][i % 3] } else { kind };
    match k {
        Snap::None | Snap::Mixed => Ok(d.clone()),
        Snap::Clone => Ok(d.clone()),
        Snap::Rmp => {
            let bytes = rmp_serde::to_vec(d).map_err(|e| format!("rmp serialise: {}", e))?;
            rmp_serde::from_slice(&bytes).map_err(|e| format!("rmp deserialise: {}", e))
        }
        Snap::Json => {
            let bytes = serde_json::to_vec(d).map_err(|e| format!("json serialise: {}", e))?;
            serde_json::from_slice(&bytes).map_err(|e| format!("json deserialise: {}", e))
        }
    }
}

/// Decode under a schedule; with `kind` != None the decoder object is replaced by a restored
/// snapshot of itself between any two calls. Returns the per-call results and the output.
#[allow(clippy::type_complexity)]
fn run_schedule(inp: &Input, flat_cap: Option<usize>, lens: &[usize], budgets: &[usize], kind: Snap, rep: &mut Report) -> Result<(Vec<(i8, usize, usize, u8)>, Vec<u8>, Option<u32>), String> {
    let base = if inp.zlib { F_ZLIB } else { 0 };
    let flat = flat_cap.is_some();
    let mut buf = vec![0u8; flat_cap.unwrap_or(32768)];
    let flags0 = if flat { base | F_FLAT } else { base };
    let mut d = Box::new(DecompressorOxide::new());
    let mut calls = Vec::new();
    let mut out = Vec::new();
    let mut in_pos = 0usize;
    let mut avail_end = lens.first().copied().unwrap_or(0);
    let mut ci = 1usize;
    let mut out_pos = 0usize;
    let mut n = 0usize;
    let mut idle = 0;
    loop {
        n += 1;
        if n > inp.bytes.len() * 2 + buf.len() + 64 + (1 << 20) || idle > lens.len() + budgets.len() + 8 {
            return Err("no progress".into());
        }
        if kind != Snap::None && n > 1 {
            let st = d.verif_state();
            *d = restore(&d, kind, n)?;
            rep.count(&format!("restores_{:?}", if kind == Snap::Mixed { [Snap::Clone, Snap::Rmp, Snap::Json][n % 3] } else { kind }));
            rep.set_insert("states_at_restore", state_name(st));
        }
        let more = ci < lens.len();
        let flags = if more { flags0 | F_MORE } else { flags0 };
        let budget = if budgets.is_empty() { usize::MAX } else { budgets[(n - 1) % budgets.len()] };
        let r = catch(|| decompress_with_limit(&mut d, &inp.bytes[in_pos..avail_end], &mut buf, out_pos, budget, flags)).map_err(|p| format!("panic: {}", p.text))?;
        calls.push((r.0 as i8, r.1, r.2, d.verif_state()));
        in_pos += r.1;
        out.extend_from_slice(&buf[out_pos..out_pos + r.2]);
        out_pos += r.2;
        if !flat && out_pos >= buf.len() {
            out_pos = 0;
        }
        if r.1 == 0 && r.2 == 0 {
            idle += 1;
        } else {
            idle = 0;
        }
        match r.0 {
            TINFLStatus::NeedsMoreInput => {
                if ci < lens.len() {
                    avail_end += lens[ci];
                    ci += 1;
                    idle = 0;
                } else {
                    break;
                }
            }
            TINFLStatus::HasMoreOutput => {
                if flat && out_pos >= buf.len() {
                    break;
                }
            }
            _ => break,
        }
    }
    Ok((calls, out, d.adler32()))
}

fn snapshots(rep: &mut Report, rng: &mut Rng, k: u64, max_len: usize) {
    let inp = gen_input(rng, k, max_len);
    let r = ref_inflate(&inp.bytes, Opts::fmt(inp.zlib));
    if r.out.len() > (1 << 20) {
        return;
    }
    let len = inp.bytes.len();
    let scheds: Vec<(Chunking, Vec<usize>)> = vec![
        (Chunking::Fixed(1), vec![]),
        (Chunking::Fixed(1), vec![1]),
        (Chunking::Fixed(2), vec![3, 1, 2]),
        (Chunking::OneShot, vec![1]),
        (Chunking::OneShot, vec![2, 257, 3]),
        (Chunking::Fixed(1 + rng.below(7)), vec![1 + rng.below(5), 258, 1 + rng.below(300)]),
    ];
    let mut mid = false;
    for (sidx, (chunking, budgets)) in scheds.iter().enumerate() {
        for ring in [false, true] {
            let cap = if ring { None } else { Some(r.out.len() + 1 + if inp.plain.is_none() { 600 } else { 0 }) };
            let lens = chunking.lens(len);
            let base = match run_schedule(&inp, cap, &lens, budgets, Snap::None, rep) {
                Ok(b) => b,
                Err(e) => {
                    rep.violation("C19:uninterrupted-run-failed", e, Json::obj(vec![("input_hex", Json::s(&hex_short(&inp.bytes, 600)))]));
                    return;
                }
            };
            if base.0.len() > 1 && base.0[..base.0.len() - 1].iter().any(|c| (12..=22).contains(&c.3)) {
                mid = true;
            }
            for kind in [Snap::Clone, Snap::Rmp, Snap::Json, Snap::Mixed] {
                // serialisation round trips are expensive: each format gets a subset of the schedules
                let wanted = match kind {
                    Snap::Clone => true,
                    Snap::Rmp => matches!(sidx, 0 | 2 | 5),
                    Snap::Json => matches!(sidx, 0 | 5) && (!ring || base.0.len() < 400),
                    _ => sidx == 1 || sidx == 4,
                };
                if !wanted || (kind != Snap::Clone && base.0.len() > 3000) {
                    continue;
                }
                rep.eval();
                rep.count("snapshot_schedules");
                let det = |what: &str| Json::obj(vec![("input_hex", Json::s(&hex_short(&inp.bytes, 800))), ("class", Json::s(inp.class)), ("zlib", Json::Bool(inp.zlib)), ("mode", Json::s(if ring { "ring32768" } else { "flat" })), ("chunking", Json::s(&chunking.describe())), ("budgets", Json::s(&format!("{:?}", budgets))), ("snapshot_kind", Json::s(&format!("{:?}", kind))), ("what", Json::s(what))]);
                match run_schedule(&inp, cap, &lens, budgets, kind, rep) {
                    Err(e) => {
                        rep.violation(&format!("C19:snapshot-run-failed:{:?}", kind), format!("with the decoder replaced by a {:?} snapshot between calls: {}", kind, e), det(&e));
                        return;
                    }
                    Ok(run) => {
                        if run.0 != base.0 || run.1 != base.1 || run.2 != base.2 {
                            let j = run.0.iter().zip(base.0.iter()).position(|(a, b)| a != b).unwrap_or(run.0.len().min(base.0.len()));
                            let what = format!("first differing call #{}: restored {:?} vs uninterrupted {:?} (status, consumed, written, state); state restored before that call: {}", j + 1, run.0.get(j), base.0.get(j), if j > 0 { state_name(base.0[j - 1].3) } else { "Start" });
                            rep.violation(
                                &format!("C19:snapshot-resume-differs:{:?}:{}", if kind == Snap::Mixed { Snap::Rmp } else { kind }, if j > 0 { state_name(base.0[j - 1].3) } else { "Start" }),
                                format!("decoding continued from a {:?} snapshot differs from the uninterrupted decoder: {}", kind, what),
                                det(&what),
                            );
                            return;
                        }
                    }
                }
            }
        }
    }
    if mid {
        let mut h = Hasher::new();
        h.bytes(&inp.bytes).u64(inp.zlib as u64);
        rep.nontrivial(h.finish());
        rep.sample(|| Json::obj(vec![("input_hex", Json::s(&hex_short(&inp.bytes, 200))), ("class", Json::s(inp.class)), ("snapshots", Json::s("clone / rmp-serde / serde_json / alternating, taken between every two calls of 6 schedules (1-byte feeding, 1-byte budgets, mixed), flat and ring 32K"))]));
    }
}

/// InflateState::clone between any two inflate() calls.
fn wrapper_clone(rep: &mut Report, rng: &mut Rng) {
    let zl = rng.bool();
    let g = grammar::random_stream(rng, &grammar::GenOpts::medium(zl));
    let ic = 1 + rng.below(40);
    let oc = *rng.pick(&[1usize, 5, 100, 40_000]);
    let mut outs: Vec<(Vec<u8>, Vec<String>)> = Vec::new();
    for cloning in [false, true] {
        let mut st = InflateState::new_boxed(fmt_of(zl));
        let mut pos = 0;
        let mut out = Vec::new();
        let mut log = Vec::new();
        let mut ob = vec![0u8; oc];
        for i in 0..(g.bytes.len() + g.plain.len()) * 2 + 100 {
            if cloning && i > 0 {
                let c = st.clone();
                st = c;
                rep.count("restores_InflateState_clone");
            }
            let end = (pos + ic).min(g.bytes.len());
            let r = match catch(|| inflate(&mut st, &g.bytes[pos..end], &mut ob, MZFlush::None)) {
                Ok(r) => r,
                Err(p) => {
                    rep.violation("C19:panic:inflate-clone", p.text, Json::Null);
                    return;
                }
            };
            pos += r.bytes_consumed;
            out.extend_from_slice(&ob[..r.bytes_written]);
            log.push(format!("{:?},{},{}", r.status, r.bytes_consumed, r.bytes_written));
            if r.status != Ok(miniz_oxide::MZStatus::Ok) && !(r.status == Err(miniz_oxide::MZError::Buf) && pos < g.bytes.len()) {
                break;
            }
        }
        outs.push((out, log));
    }
    rep.eval();
    if outs[0] != outs[1] || outs[0].0 != g.plain {
        rep.violation("C19:inflate-state-clone-differs", "continuing from InflateState::clone() between calls differs from the uninterrupted run".into(), Json::obj(vec![("stream_hex", Json::s(&hex_short(&g.bytes, 400))), ("in_chunk", Json::u(ic)), ("out_chunk", Json::u(oc))]));
    } else {
        let mut h = Hasher::new();
        h.bytes(&g.bytes).u64(ic as u64).u64(oc as u64);
        rep.nontrivial(h.finish());
    }
}

/// Stop-at-block-boundary: exactly one stop per non-final block, fields as documented, and a
/// decoder rebuilt from the record + the preceding 32 KiB continues identically.
fn block_boundaries(rep: &mut Report, rng: &mut Rng, k: u64) {
    let zl = rng.bool();
    let mut o = if k % 3 == 0 { grammar::GenOpts::large(zl) } else { grammar::GenOpts::medium(zl) };
    o.max_blocks = 10;
    o.max_tokens = 3000;
    let g = match k % 4 {
        3 => {
            // the crate's own compressor with sync flushes: many blocks
            let n = 2000 + rng.below(100_000);
            let p = crate::gen::data::gen(rng, 11, n);
            match crate::ffi::zlib::deflate(&p, 6, if zl { 15 } else { -15 }, 8, 0, 1 + rng.below(5000), *rng.pick(&[2, 3, 5])) {
                Some(b) => grammar::GenStream { bytes: b, plain: p, zlib: zl, blocks: vec![], end_bit: 0 },
                None => grammar::random_stream(rng, &o),
            }
        }
        _ => grammar::random_stream(rng, &o),
    };
    let tr = ref_inflate(&g.bytes, Opts::fmt(zl));
    if !tr.verdict.is_complete() {
        rep.inconclusive("C19 block-boundary subject rejected by the reference decoder".into());
        return;
    }
    let hdr = if zl { 2 } else { 0 };
    let expected: Vec<(usize, usize)> = tr.blocks.iter().filter(|b| !b.bfinal).map(|b| (b.out_end, b.end_bit)).collect();
    let rebuild_at: Option<usize> = if expected.is_empty() || rng.chance(1, 3) { None } else { Some(rng.below(expected.len())) };
    let base = if zl { F_ZLIB } else { 0 };
    let flags0 = base | F_FLAT | TINFL_FLAG_STOP_ON_BLOCK_BOUNDARY;
    let mut d = DecompressorOxide::new();
    let mut buf = vec![0u8; g.plain.len() + 1];
    let mut out_pos = 0usize;
    let mut produced_before_rebuild = 0usize; // offset mapping after a rebuild
    let mut in_pos = 0usize;
    let chunk = *rng.pick(&[1usize, 2, 7, 100, usize::MAX / 2]);
    let mut avail_end = chunk.min(g.bytes.len());
    let mut stops = 0usize;
    let mut total_out: Vec<u8> = Vec::new();
    let det = |what: &str| Json::obj(vec![("stream_hex", Json::s(&hex_short(&g.bytes, 600))), ("zlib", Json::Bool(zl)), ("in_chunk", Json::s(&format!("{}", chunk))), ("expected_boundaries(out_end,end_bit)", Json::s(&format!("{:?}", &expected[..expected.len().min(12)]))), ("what", Json::s(what))]);
    for _ in 0..g.bytes.len() * 2 + expected.len() * 2 + 64 {
        let more = avail_end < g.bytes.len();
        let flags = if more { flags0 | F_MORE } else { flags0 };
        let r = match catch(|| decompress_with_limit(&mut d, &g.bytes[in_pos..avail_end], &mut buf, out_pos, usize::MAX, flags)) {
            Ok(r) => r,
            Err(p) => {
                rep.violation("C19:panic:block-boundary", p.text, det("panic"));
                return;
            }
        };
        in_pos += r.1;
        total_out.extend_from_slice(&buf[out_pos..out_pos + r.2]);
        out_pos += r.2;
        rep.eval();
        match r.0 {
            TINFLStatus::BlockBoundary => {
                rep.count("boundaries_checked");
                if stops >= expected.len() {
                    rep.violation("C19:extra-block-boundary", format!("a stop was reported after the {} non-final blocks were over", expected.len()), det("extra stop"));
                    return;
                }
                let (out_end, end_bit) = expected[stops];
                let st = match d.block_boundary_state() {
                    Some(s) => s,
                    None => {
                        rep.violation("C19:no-boundary-state", "BlockBoundary returned but block_boundary_state() is None".into(), det(""));
                        return;
                    }
                };
                let want_consumed = (end_bit + 7) / 8 + hdr * 0;
                let want_bits = (8 * want_consumed - end_bit) as u8;
                let last = g.bytes[want_consumed - 1];
                let want_buf = if want_bits == 0 { 0 } else { last >> (8 - want_bits) };
                let ok = total_out.len() == out_end && in_pos == want_consumed && st.num_bits < 8 && st.num_bits == want_bits && st.bit_buf == want_buf;
                if !ok {
                    rep.violation(
                        "C19:block-boundary-record",
                        format!("stop #{}: output offset {} (expected {}), consumed {} (expected {}), num_bits {} (expected {}), bit_buf {:#x} (expected {:#x})", stops + 1, total_out.len(), out_end, in_pos, want_consumed, st.num_bits, want_bits, st.bit_buf, want_buf),
                        det("record"),
                    );
                    return;
                }
                if rebuild_at == Some(stops) {
                    // rebuild from the documented record + the preceding 32 KiB of output only
                    let keep = total_out.len().min(32768);
                    let mut nb = vec![0u8; keep + (g.plain.len() - total_out.len()) + 1];
                    nb[..keep].copy_from_slice(&total_out[total_out.len() - keep..]);
                    buf = nb;
                    out_pos = keep;
                    produced_before_rebuild = total_out.len();
                    d = DecompressorOxide::from_block_boundary_state(&st);
                    rep.count("rebuilds_from_boundary_record");
                }
                stops += 1;
            }
            TINFLStatus::NeedsMoreInput => {
                if !more {
                    rep.violation("C19:needs-more-input-without-flag", "NeedsMoreInput at the end of the input".into(), det(""));
                    return;
                }
                avail_end = (avail_end + chunk).min(g.bytes.len());
            }
            TINFLStatus::Done => break,
            other => {
                rep.violation(&format!("C19:block-boundary-decode-{}", st_name(other)), format!("valid stream decoded with stop-at-block-boundary{}: status {} after {} stops", if rebuild_at.is_some() { " and a rebuild from the boundary record" } else { "" }, st_name(other), stops), det("status"));
                return;
            }
        }
    }
    let _ = produced_before_rebuild;
    if stops != expected.len() || total_out != g.plain || in_pos != g.bytes.len() {
        rep.violation(
            if stops != expected.len() { "C19:block-boundary-count" } else { "C19:block-boundary-result" },
            format!("{} stops reported for {} non-final blocks; output {} of {} bytes; consumed {} of {} (rebuild at stop {:?})", stops, expected.len(), total_out.len(), g.plain.len(), in_pos, g.bytes.len(), rebuild_at),
            det("end of stream"),
        );
        return;
    }
    if !expected.is_empty() {
        let mut h = Hasher::new();
        h.bytes(&g.bytes).u64(chunk as u64).u64(rebuild_at.map(|x| x as u64 + 1).unwrap_or(0));
        rep.nontrivial(h.finish());
    }
}

pub fn run(ctx: &Ctx, rep: &mut Report) {
    let n_s = ctx.n(250, 12_000);
    let n_w = ctx.n(300, 8_000);
    let n_b = ctx.n(1500, 50_000);
    for k in ctx.cases(n_s + n_w + n_b) {
        rep.cur_case = k;
        crate::ctx::begin_case(k);
        let mut rng = ctx.rng("case", k);
        if k < n_s {
            snapshots(rep, &mut rng, k, if ctx.thorough() { 2500 } else { 700 });
        } else if k < n_s + n_w {
            wrapper_clone(rep, &mut rng);
        } else {
            block_boundaries(rep, &mut rng, k);
        }
    }
    if ctx.only_case.is_none() && ctx.tier != crate::ctx::Tier::Tiny {
        rep.gate("boundaries_checked", if ctx.thorough() { 100_000 } else { 2000 });
        rep.gate("restores_Rmp", 10_000);
    }
}
