//! C12 — flush points make all input so far decodable; full flush cuts history; a no-sync flush
//! followed later by a sync flush is equivalent to the sync flush alone.

use super::comp::*;
use crate::ctx::Ctx;
use crate::gen::data;
use crate::refimpl::inflate::{inflate as ref_inflate, InvalidKind, Opts, Verdict};
use crate::report::{Json, Report};
use crate::rng::{Hasher, Rng};
use miniz_oxide::deflate::core::TDEFLFlush;

/// Plaintext made of segments; flush requests are placed at the segment boundaries. Segments
/// after the first deliberately repeat pre-flush data: the head of the stream, a run of the last
/// pre-flush byte, the trigram straddling the boundary, and random older snippets.
fn segmented(rng: &mut Rng, nseg: usize, max_seg: usize) -> (Vec<u8>, Vec<usize>) {
    let mut v: Vec<u8> = Vec::new();
    let mut cuts = Vec::new();
    for si in 0..nseg {
        let n = 1 + rng.size_biased(max_seg);
        let cls = *rng.pick(&[6usize, 11, 5, 13, 7, 2, 16]);
        let mut seg = data::gen(rng, cls, n);
        if si > 0 && !v.is_empty() {
            let mut pre: Vec<u8> = Vec::new();
            match rng.below(5) {
                0 => {
                    // head of the whole stream
                    let k = (4 + rng.below(60)).min(v.len());
                    pre.extend_from_slice(&v[..k]);
                }
                1 => {
                    // run continuing across the boundary
                    let b = *v.last().unwrap();
                    pre.extend(std::iter::repeat(b).take(3 + rng.below(40)));
                }
                2 => {
                    // the trigram straddling the boundary recurs shortly afterwards
                    if v.len() >= 2 {
                        let a = v[v.len() - 2];
                        let b = v[v.len() - 1];
                        let x = rng.byte();
                        pre.push(x);
                        pre.extend_from_slice(&rng.bytes(rng.clone().below(6)));
                        pre.extend_from_slice(&[a, b, x]);
                        pre.extend_from_slice(&rng.bytes(3));
                        pre.extend_from_slice(&[a, b, x]);
                    }
                }
                3 => {
                    // older snippets
                    for _ in 0..1 + rng.below(4) {
                        let s = rng.below(v.len());
                        let l = (3 + rng.below(100)).min(v.len() - s);
                        pre.extend_from_slice(&v[s..s + l]);
                    }
                }
                _ => {
                    // tail of the previous segment
                    let k = (3 + rng.below(200)).min(v.len());
                    pre.extend_from_slice(&v[v.len() - k..]);
                }
            }
            pre.append(&mut seg);
            seg = pre;
        }
        v.extend_from_slice(&seg);
        cuts.push(v.len());
    }
    (v, cuts)
}

struct Plan {
    cfg: Config,
    api: Api,
    plain: Vec<u8>,
    steps: Vec<CStep>,
}

fn gen_plan(rng: &mut Rng, k: u64) -> Plan {
    let mut cfg = Config::nth(k.wrapping_mul(13) + 5);
    if rng.chance(3, 4) {
        cfg.wbits = 15;
    }
    let api = if rng.chance(1, 3) { Api::Deflate } else { Api::Compress };
    let nseg = 2 + rng.below(6);
    let (plain, cuts) = segmented(rng, nseg, if k % 5 == 0 { 40_000 } else { 1500 });
    let flushes: Vec<TDEFLFlush> = if api == Api::Deflate {
        vec![TDEFLFlush::Sync, TDEFLFlush::Full, TDEFLFlush::Partial, TDEFLFlush::Full]
    } else {
        vec![TDEFLFlush::Sync, TDEFLFlush::Full, TDEFLFlush::Partial, TDEFLFlush::Full, TDEFLFlush::PartialOpt, TDEFLFlush::SyncOpt, TDEFLFlush::NoSync]
    };
    let mut steps = Vec::new();
    let mut prev = 0usize;
    for (i, &c) in cuts.iter().enumerate() {
        let seg = c - prev;
        prev = c;
        let last = i + 1 == cuts.len();
        if last {
            break; // the tail is delivered by the Finish steps the driver appends
        }
        let generous = 2 * seg + 200_000;
        match rng.below(6) {
            0 | 1 | 2 => {
                // directed pair: drain step that leaves output space, then flush with generous output
                let split = rng.below(seg + 1);
                steps.push(CStep { chunk: split, out_len: generous, flush: TDEFLFlush::None });
                steps.push(CStep { chunk: seg - split, out_len: generous, flush: *rng.pick(&flushes) });
            }
            3 => {
                // flush carrying the whole segment
                steps.push(CStep { chunk: seg, out_len: generous, flush: *rng.pick(&flushes) });
            }
            4 => {
                // hostile: tiny outputs, flush while output pending (precondition usually false)
                let f = *rng.pick(&flushes);
                steps.push(CStep { chunk: seg, out_len: 1 + rng.below(6), flush: f });
                for _ in 0..rng.below(5) {
                    steps.push(CStep { chunk: 0, out_len: 1 + rng.below(9), flush: f });
                }
                // drain completely so that later flush points can satisfy the precondition again
                steps.push(CStep { chunk: 0, out_len: generous, flush: TDEFLFlush::None });
                steps.push(CStep { chunk: 0, out_len: generous, flush: TDEFLFlush::None });
            }
            _ => {
                // data in small pieces, then a flush with no new input
                let mut left = seg;
                while left > 0 {
                    let c2 = (1 + rng.size_biased(400)).min(left);
                    steps.push(CStep { chunk: c2, out_len: generous, flush: TDEFLFlush::None });
                    left -= c2;
                }
                steps.push(CStep { chunk: 0, out_len: generous, flush: *rng.pick(&flushes) });
            }
        }
    }
    Plan { cfg, api, plain, steps }
}

/// Flush requests whose input ends exactly on / next to the compressor's automatic block
/// threshold, issued into an output that is too small (so the automatic block and the marker
/// meet while output is pending), followed by a complete drain and a conforming flush.
fn gen_plan_threshold(rng: &mut Rng, k: u64) -> Plan {
    let mut cfg = Config::nth(k.wrapping_mul(31) + 7);
    cfg.wbits = 15;
    if rng.chance(1, 3) {
        cfg.level = 0;
    }
    let api = if rng.chance(1, 4) { Api::Deflate } else { Api::Compress };
    let base = *rng.pick(&[31_745usize, 31_745, 63_490, 31_744, 32_768, 58_247, 65_528]);
    let n1 = (base as i64 + rng.range(0, 2) as i64 - 1) as usize;
    let mut plain = data::gen(rng, *rng.clone().pick(&[6usize, 14, 8]), n1);
    let n2 = 1 + rng.below(3000);
    let cls2 = rng.below(data::NUM_CLASSES);
    plain.extend_from_slice(&data::gen(rng, cls2, n2));
    let flushes: Vec<TDEFLFlush> = if api == Api::Deflate { vec![TDEFLFlush::Sync, TDEFLFlush::Full, TDEFLFlush::Partial] } else { vec![TDEFLFlush::Sync, TDEFLFlush::Full, TDEFLFlush::Partial, TDEFLFlush::SyncOpt, TDEFLFlush::PartialOpt] };
    let f = *rng.pick(&flushes);
    let small = *rng.pick(&[1usize, 7, 300, 4096]);
    let big = 400_000;
    let mut steps = Vec::new();
    if rng.bool() {
        let cut = rng.below(n1);
        steps.push(CStep { chunk: cut, out_len: big, flush: TDEFLFlush::None });
        steps.push(CStep { chunk: n1 - cut, out_len: small, flush: f });
    } else {
        steps.push(CStep { chunk: n1, out_len: small, flush: f });
    }
    // drain completely, then a conforming flush point (space to spare before and during)
    steps.push(CStep { chunk: 0, out_len: big, flush: TDEFLFlush::None });
    steps.push(CStep { chunk: 0, out_len: big, flush: TDEFLFlush::None });
    steps.push(CStep { chunk: 0, out_len: big, flush: *rng.pick(&flushes) });
    steps.push(CStep { chunk: n2 / 2, out_len: big, flush: *rng.pick(&flushes) });
    Plan { cfg, api, plain, steps }
}

fn ends_with_marker(b: &[u8]) -> bool {
    b.len() >= 4 && b[b.len() - 4..] == [0x00, 0x00, 0xff, 0xff]
}

fn check_plan(rep: &mut Report, p: &Plan) {
    let mut c = p.cfg.make();
    let run = run_history(&mut c, p.api, &p.plain, &p.steps, 200_000);
    rep.eval();
    let det = |note: &str| history_detail(&p.cfg, p.api, &p.plain, &p.steps, &run, note);
    if let Some(pn) = &run.panic {
        rep.violation(&format!("C12:panic:{}", pn.site_file()), pn.text.clone(), det("panic"));
        return;
    }
    if run.fault.is_some() || !run.done {
        // protocol faults are C02/C14's business; here they only make the history unusable
        rep.count("histories_unusable");
        return;
    }
    let mut full_points: Vec<(usize, usize)> = Vec::new();
    let mut nontrivial = false;
    for (i, e) in run.events.iter().enumerate() {
        let is_flush = !matches!(e.flush, TDEFLFlush::None | TDEFLFlush::Finish);
        if !is_flush {
            continue;
        }
        rep.count("flush_points_met");
        let prev_ok = i == 0 || run.events[i - 1].written < run.events[i - 1].out_len;
        let pre = prev_ok && e.consumed == e.offered && e.written < e.out_len;
        if !pre {
            rep.count("flush_points_precondition_false");
            continue;
        }
        rep.count("flush_points_precondition_true");
        rep.count(&format!("precondition_true_{:?}", e.flush));
        if e.probe.flush_remaining != 0 {
            rep.violation("C12:pending-output-despite-space", format!("flush call returned with output space to spare but {} bytes still pending", e.probe.flush_remaining), det("hook cross-check"));
            return;
        }
        let emitted = &run.out[..e.out_total_after];
        let supplied = e.in_total_after;
        let r = ref_inflate(emitted, Opts::fmt(p.cfg.zlib));
        let where_ = format!("call {} ({:?}) after {} input bytes, {} output bytes", i + 1, e.flush, supplied, emitted.len());
        // the prefix must be an unfinished but so-far-valid stream
        match r.verdict {
            Verdict::Truncated { .. } => {}
            v => {
                rep.violation(&format!("C12:prefix-not-a-valid-prefix:{:?}", e.flush), format!("bytes emitted up to the flush are not a prefix of a valid stream: {:?}; {}", v, where_), det(&where_));
                return;
            }
        }
        let sync_like = matches!(e.flush, TDEFLFlush::Sync | TDEFLFlush::Full | TDEFLFlush::Partial | TDEFLFlush::PartialOpt | TDEFLFlush::SyncOpt);
        if sync_like {
            if r.out != p.plain[..supplied] {
                let what = if r.out.len() < supplied { "missing-input" } else { "wrong-data" };
                rep.violation(
                    &format!("C12:flush-point-{}:{:?}:{}", what, e.flush, if p.cfg.level == 0 { "level0" } else if p.cfg.level == 1 { "level1" } else { "level2+" }),
                    format!("the bytes emitted so far decode to {} bytes but {} bytes of input were supplied ({}); {}", r.out.len(), supplied, p.cfg.describe(), where_),
                    det(&where_),
                );
                return;
            }
            rep.count("prefix_decodes_to_all_input");
        } else {
            // NoSync: up to 7 bits may be held back, so the decoded data may lack the tail; it
            // must still be a prefix of the input
            if !p.plain[..supplied].starts_with(&r.out) {
                rep.violation("C12:flush-point-wrong-data:NoSync", format!("NoSync prefix decodes to data that is not a prefix of the input; {}", where_), det(&where_));
                return;
            }
        }
        if matches!(e.flush, TDEFLFlush::Sync | TDEFLFlush::Full) {
            let last_complete = r.blocks.iter().rev().find(|b| b.complete);
            let aligned_at_block_header = r.blocks.last().map(|b| !b.complete && b.start_bit == emitted.len() * 8).unwrap_or(false) || last_complete.map(|b| b.end_bit == emitted.len() * 8).unwrap_or(false);
            if !ends_with_marker(emitted) || e.unwritten_bits != 0 || !aligned_at_block_header {
                rep.violation(
                    &format!("C12:sync-marker-missing:{:?}", e.flush),
                    format!("after a {:?} flush the output must end on a byte boundary with 00 00 FF FF: tail {:02x?}, unwritten_bit_count {} ; {}", e.flush, &emitted[emitted.len().saturating_sub(4)..], e.unwritten_bits, where_),
                    det(&where_),
                );
                return;
            }
            rep.count("sync_marker_ok");
        }
        if e.flush == TDEFLFlush::Full {
            full_points.push((e.out_total_after, supplied));
        }
        if supplied > 0 && supplied < p.plain.len() {
            nontrivial = true;
        }
    }
    // full flush cuts history: the remainder decodes on its own
    for &(op, ip) in &full_points {
        let suffix = &run.out[op..];
        let r = ref_inflate(suffix, Opts::raw());
        let trailer = if p.cfg.zlib { 4 } else { 0 };
        let ok = matches!(r.verdict, Verdict::Complete { consumed, .. } if consumed + trailer == suffix.len()) && r.out == p.plain[ip..];
        rep.count("full_flush_suffixes_checked");
        if p.plain[ip..].len() > 3 {
            rep.count("full_flush_suffixes_with_data");
        }
        if !ok {
            let what = match r.verdict {
                Verdict::Invalid { kind: InvalidKind::DistanceBeforeStart, .. } => "match-reaches-before-the-flush".to_string(),
                v => format!("{:?}", v).split(|c: char| !c.is_alphanumeric()).next().unwrap_or("bad").to_string(),
            };
            rep.violation(
                &format!("C12:full-flush-suffix:{}:{}", what, if p.cfg.level == 0 { "level0" } else if p.cfg.level == 1 { "level1" } else { "level2+" }),
                format!("the output after the full flush at byte {} (input offset {}) does not decode on its own to the remaining input: {:?}, {} of {} bytes ({})", op, ip, r.verdict, r.out.len(), p.plain.len() - ip, p.cfg.describe()),
                det(&format!("suffix from output byte {}", op)),
            );
            return;
        }
    }
    if nontrivial {
        let mut h = Hasher::new();
        h.bytes(&p.plain).u64(p.cfg.index()).u64(p.api as u64);
        for s in &p.steps {
            h.u64(s.chunk as u64).u64(s.out_len as u64).u64(s.flush as u64);
        }
        rep.nontrivial(h.finish());
        rep.sample(|| det("held: every precondition-true flush point decoded to all input so far"));
    }
}

/// NoSync followed later by Sync vs Sync alone.
fn twins(rep: &mut Report, rng: &mut Rng, k: u64) {
    let mut cfg = Config::nth(k.wrapping_mul(29) + 3);
    cfg.wbits = 15;
    let nseg = 2 + rng.below(3);
    let (plain, cuts) = segmented(rng, nseg, 3000);
    let big = 400_000;
    let mut steps_a = Vec::new();
    let mut steps_b = Vec::new();
    let mut prev = 0;
    for &c in &cuts[..cuts.len() - 1] {
        let seg = c - prev;
        prev = c;
        steps_a.push(CStep { chunk: seg, out_len: big, flush: TDEFLFlush::NoSync });
        steps_a.push(CStep { chunk: 0, out_len: big, flush: TDEFLFlush::Sync });
        steps_b.push(CStep { chunk: seg, out_len: big, flush: TDEFLFlush::Sync });
    }
    let mut ca = cfg.make();
    let mut cb = cfg.make();
    let ra = run_history(&mut ca, Api::Compress, &plain, &steps_a, big);
    let rb = run_history(&mut cb, Api::Compress, &plain, &steps_b, big);
    rep.eval();
    rep.count("twin_histories");
    if ra.panic.is_some() || rb.panic.is_some() || !ra.done || !rb.done {
        rep.violation("C12:twin-history-failed", format!("twin histories did not complete ({})", cfg.describe()), history_detail(&cfg, Api::Compress, &plain, &steps_a, &ra, "twin A"));
        return;
    }
    // compare at each sync point
    let a_sync: Vec<&CallEv> = ra.events.iter().filter(|e| e.flush == TDEFLFlush::Sync).collect();
    let b_sync: Vec<&CallEv> = rb.events.iter().filter(|e| e.flush == TDEFLFlush::Sync).collect();
    for (ea, eb) in a_sync.iter().zip(b_sync.iter()) {
        let pa = &ra.out[..ea.out_total_after];
        let pb = &rb.out[..eb.out_total_after];
        let da = ref_inflate(pa, Opts::fmt(cfg.zlib));
        let db = ref_inflate(pb, Opts::fmt(cfg.zlib));
        rep.count("twin_sync_points");
        let ok = da.out == db.out && da.out == plain[..ea.in_total_after] && ea.in_total_after == eb.in_total_after && ends_with_marker(pa) && ends_with_marker(pb) && ea.unwritten_bits == 0 && eb.unwritten_bits == 0;
        if !ok {
            rep.violation(
                "C12:nosync-then-sync-not-equivalent",
                format!("after [NoSync, Sync] the emitted prefix decodes to {} bytes (aligned marker: {}), after [Sync] alone to {} bytes (aligned marker: {}); supplied {} ({})", da.out.len(), ends_with_marker(pa), db.out.len(), ends_with_marker(pb), ea.in_total_after, cfg.describe()),
                history_detail(&cfg, Api::Compress, &plain, &steps_a, &ra, "twin A = NoSync then Sync; twin B = Sync alone"),
            );
            return;
        }
        if pa == pb {
            rep.count("twin_sync_points_byte_identical");
        }
        if pa.len() == pb.len() {
            rep.count("twin_sync_points_equal_length");
        }
    }
    let mut h = Hasher::new();
    h.bytes(&plain).u64(cfg.index());
    rep.nontrivial(h.finish());
}

pub fn run(ctx: &Ctx, rep: &mut Report) {
    let n = ctx.n(48_000, 4_500_000);
    let n_tw = ctx.n(9000, 750_000);
    let n_thr = ctx.n(4500, 450_000);
    for k in ctx.cases(n + n_tw + n_thr) {
        rep.cur_case = k;
        crate::ctx::begin_case(k);
        let mut rng = ctx.rng("case", k);
        if k < n {
            let p = gen_plan(&mut rng, k);
            check_plan(rep, &p);
        } else if k < n + n_tw {
            twins(rep, &mut rng, k);
        } else {
            let p = gen_plan_threshold(&mut rng, k);
            check_plan(rep, &p);
            rep.count("threshold_plans");
        }
    }
    if ctx.only_case.is_none() && ctx.tier != crate::ctx::Tier::Tiny {
        rep.gate("flush_points_precondition_true", if ctx.thorough() { 100_000 } else { 2000 });
        rep.gate("full_flush_suffixes_with_data", if ctx.thorough() { 20_000 } else { 500 });
    }
    let _ = Json::Null;
}
