//! C07 — decoding can be suspended and resumed anywhere without changing the result.

use super::c04::ring_fill;
use super::common::*;
use crate::ctx::Ctx;
use crate::gen::{data, faults, grammar};
use crate::refimpl::inflate::{inflate as ref_inflate, Opts};
use crate::report::{hex_short, Json, Report};
use crate::rng::{Hasher, Rng};
use miniz_oxide::inflate::core::DecompressorOxide;

pub struct Input {
    pub bytes: Vec<u8>,
    pub zlib: bool,
    pub class: &'static str,
    /// plaintext when the input is a valid stream
    pub plain: Option<Vec<u8>>,
}

/// Streams built so that every decoder state has both an input-starved and an output-full exit:
/// long extra-bit fields, stored blocks, len-258 matches, many block boundaries.
fn directed_stream(rng: &mut Rng, zl: bool) -> grammar::GenStream {
    let mut b = grammar::Builder::new(zl);
    let nblocks = 2 + rng.below(4);
    for bi in 0..nblocks {
        let fin = bi + 1 == nblocks;
        match rng.below(4) {
            0 => {
                let n = rng.below(40);
                let d = rng.bytes(n);
                b.stored(&d, fin, rng.below(2) as u32);
            }
            _ => {
                let n = 3 + rng.below(40);
                for _ in 0..n {
                    let have = b.out_len();
                    if have > 0 && rng.chance(1, 2) {
                        // long extra fields: lengths 227..257 (5 extra bits), far distances (up to 13 extra bits)
                        let len = *rng.pick(&[3usize, 4, 11, 35, 131, 227, 250, 257, 258]);
                        let dist = if have > 24577 && rng.bool() { 24577 + rng.below(have.min(32768) - 24577 + 1) } else { 1 + rng.below(have.min(32768)) };
                        b.mat(len, dist.min(have));
                    } else {
                        b.lit(rng.byte());
                    }
                }
                if rng.bool() {
                    b.end_fixed(fin);
                } else {
                    let o = grammar::DynOpts::random(rng);
                    let _ = b.end_dynamic(fin, rng, &o);
                }
            }
        }
    }
    b.finish(rng.below(2) as u32)
}

pub fn gen_input(rng: &mut Rng, k: u64, max_len: usize) -> Input {
    loop {
        let zl = rng.bool();
        let inp = match k % 8 {
            0 | 1 => {
                let g = directed_stream(rng, zl);
                Input { bytes: g.bytes, zlib: zl, class: "valid_directed", plain: Some(g.plain) }
            }
            2 => {
                let mut o = grammar::GenOpts::small(zl);
                o.random_header = rng.bool();
                let g = grammar::random_stream(rng, &o);
                Input { bytes: g.bytes, zlib: zl, class: "valid_grammar", plain: Some(g.plain) }
            }
            3 => {
                let n = rng.size_biased(6000);
                let cls = rng.below(data::NUM_CLASSES);
                let p = data::gen(rng, cls, n);
                let lvl = rng.below(11) as u8;
                let bytes = if zl { miniz_oxide::deflate::compress_to_vec_zlib(&p, lvl) } else { miniz_oxide::deflate::compress_to_vec(&p, lvl) };
                Input { bytes, zlib: zl, class: "valid_miniz", plain: Some(p) }
            }
            4 => {
                let n = rng.size_biased(6000);
                let cls = rng.below(data::NUM_CLASSES);
                let p = data::gen(rng, cls, n);
                match crate::ffi::zlib::deflate(&p, rng.below(10) as i32, if zl { 15 } else { -15 }, 8, rng.below(5) as i32, if rng.bool() { 1 + rng.below(500) } else { 0 }, 2) {
                    Some(bytes) => Input { bytes, zlib: zl, class: "valid_zlib", plain: Some(p) },
                    None => continue,
                }
            }
            5 => {
                let kind = *rng.pick(&faults::ALL_KINDS);
                let deep = rng.bool();
                match faults::build(rng, kind, deep) {
                    Some(f) => Input { bytes: f.bytes, zlib: f.zlib, class: "invalid_targeted", plain: None },
                    None => continue,
                }
            }
            6 => {
                let g = directed_stream(rng, zl);
                let (m, _) = faults::mutate(rng, &g.bytes, &[]);
                Input { bytes: m, zlib: zl, class: "mutant", plain: None }
            }
            _ => {
                let g = directed_stream(rng, zl);
                let n = rng.below(g.bytes.len().max(1));
                Input { bytes: g.bytes[..n].to_vec(), zlib: zl, class: "truncated", plain: None }
            }
        };
        if inp.bytes.len() <= max_len {
            return inp;
        }
    }
}

type Triple = (Vec<u8>, i8, usize);

fn run_sched(inp: &Input, mode: &BufMode, lens: &[usize], budgets: &[usize], fill: &[u8]) -> DecRun {
    let base = if inp.zlib { F_ZLIB } else { 0 };
    let mut d = DecompressorOxide::new();
    let ring_init = if matches!(mode, BufMode::Ring(_)) { Some(&fill[..match mode { BufMode::Ring(n) => *n, _ => 0 }]) } else { None };
    drive_core(&mut d, &inp.bytes, base, mode, lens, budgets, ring_init)
}

fn record_suspensions(rep: &mut Report, run: &DecRun) {
    let n = run.calls.len();
    for (i, c) in run.calls.iter().enumerate() {
        if i + 1 < n {
            rep.set_insert("suspension_pairs", &format!("{}@{}", state_name(c.state_after), st_name(c.status)));
        }
    }
    if n > 1 {
        rep.add("suspensions", (n - 1) as u64);
    }
}

#[allow(clippy::too_many_arguments)]
fn compare(rep: &mut Report, inp: &Input, base: &Triple, run: &DecRun, mode_name: &str, chunking: &Chunking, budgets: &[usize], base_tail: &str) -> bool {
    rep.count("schedules_run");
    rep.eval();
    record_suspensions(rep, run);
    let det = || {
        Json::obj(vec![
            ("input_hex", Json::s(&hex_short(&inp.bytes, 800))),
            ("input_len", Json::u(inp.bytes.len())),
            ("class", Json::s(inp.class)),
            ("zlib", Json::Bool(inp.zlib)),
            ("mode", Json::s(mode_name)),
            ("chunking", Json::s(&chunking.describe())),
            ("budgets", Json::s(&format!("{:?}", budgets))),
            ("baseline", Json::s(&format!("status {} consumed {} out {} bytes; {}", base.1, base.2, base.0.len(), base_tail))),
            ("schedule_run", Json::s(&format!("status {} consumed {} out {} bytes; {}", st_name(run.status), run.consumed, run.out.len(), run.tail(6)))),
        ])
    };
    if let Some(p) = &run.panic {
        rep.violation(&format!("C07:panic:{}", p.site_file()), format!("panic under schedule {} {:?} ({}): {}", chunking.describe(), budgets, mode_name, p.text), det());
        return false;
    }
    if run.stalled {
        rep.violation("C07:stalled", format!("no progress under schedule {} {:?} ({})", chunking.describe(), budgets, mode_name), det());
        return false;
    }
    let t = run.triple();
    if &t != base {
        let what = if t.1 != base.1 {
            "final-status"
        } else if t.2 != base.2 {
            "consumed"
        } else {
            "output"
        };
        rep.violation(
            &format!("C07:{}-differs:{}:{}", what, mode_name.split('(').next().unwrap_or(""), inp.class),
            format!("{} differs between one call and schedule {} budgets {:?} ({}, {} input): one-shot (status {}, consumed {}, {} bytes) vs (status {}, consumed {}, {} bytes)", what, chunking.describe(), budgets, mode_name, inp.class, base.1, base.2, base.0.len(), t.1, t.2, t.0.len()),
            det(),
        );
        return false;
    }
    true
}

pub fn check_input(ctx: &Ctx, rep: &mut Report, inp: &Input, rng: &mut Rng, exhaustive: bool) {
    let fill = ring_fill(65536);
    let r = ref_inflate(&inp.bytes, Opts::fmt(inp.zlib));
    if r.out.len() > (8 << 20) {
        rep.count("skipped_output_over_8MiB");
        return;
    }
    rep.count(&format!("inputs_{}", inp.class));
    // flat buffers: reference output length + at least one spare byte
    let cap = r.out.len() + 1 + rng.below(3) + if inp.plain.is_none() { 600 } else { 0 };
    let len = inp.bytes.len();
    let modes: Vec<(BufMode, String)> = vec![
        (BufMode::Flat(cap), "flat".to_string()),
        (BufMode::Ring(32768), "ring(32768)".to_string()),
        {
            let sz = *rng.pick(&[32768usize, 65536]);
            (BufMode::Ring(sz), format!("ring({})", sz))
        },
    ];
    let mut mid_block = false;
    for (mi, (mode, mname)) in modes.iter().enumerate() {
        if mi == 2 && !exhaustive {
            continue;
        }
        let base_run = run_sched(inp, mode, &[len], &[], &fill);
        if base_run.panic.is_some() || base_run.stalled {
            rep.violation("C07:baseline-failed", format!("one-call baseline in {} ended with {}", mname, if base_run.stalled { "no progress".to_string() } else { base_run.panic.clone().unwrap().text }), Json::obj(vec![("input_hex", Json::s(&hex_short(&inp.bytes, 800))), ("zlib", Json::Bool(inp.zlib))]));
            continue;
        }
        let base = base_run.triple();
        let base_tail = base_run.tail(3);
        // valid streams: the result is also the plaintext, Done, everything consumed - in every mode
        if let Some(p) = &inp.plain {
            if base.1 != 0 || &base.0 != p || base.2 != len {
                rep.violation(&format!("C07:valid-baseline-wrong:{}", mname.split('(').next().unwrap_or("")), format!("valid {} stream, one call, {}: status {} consumed {} of {} out {} of {}", inp.class, mname, base.1, base.2, len, base.0.len(), p.len()), Json::obj(vec![("input_hex", Json::s(&hex_short(&inp.bytes, 800))), ("zlib", Json::Bool(inp.zlib)), ("calls", Json::s(&base_tail))]));
            }
        }
        let mut scheds: Vec<(Chunking, Vec<usize>)> = Vec::new();
        if exhaustive {
            for cut in 1..len {
                scheds.push((Chunking::Cuts(vec![cut]), vec![]));
            }
            scheds.push((Chunking::Fixed(1), vec![]));
            scheds.push((Chunking::Fixed(2), vec![]));
            scheds.push((Chunking::Fixed(3), vec![]));
            for b in [1usize, 2, 3, 4, 5, 257, 258, 259, 260] {
                scheds.push((Chunking::OneShot, vec![b]));
                scheds.push((Chunking::Fixed(1 + rng.below(7)), vec![b]));
                let c = rng.below(len + 1);
                scheds.push((Chunking::Cuts(vec![c]), vec![b]));
            }
            scheds.push((Chunking::OneShot, vec![0, 1]));
            scheds.push((Chunking::Fixed(1), vec![0, 3]));
            scheds.push((Chunking::Fixed(1), vec![1]));
        }
        let nrand = if exhaustive { 6 } else { 24 };
        for _ in 0..nrand {
            let ncuts = rng.below(6);
            let mut cuts: Vec<usize> = (0..ncuts).map(|_| rng.below(len + 1)).collect();
            cuts.sort();
            let nb = rng.below(5);
            let budgets: Vec<usize> = (0..nb).map(|_| *rng.pick(&[0usize, 1, 2, 3, 7, 100, 257, 258, 259, 1000, 40000])).collect();
            let budgets = if budgets.iter().all(|&b| b == 0) { vec![] } else { budgets };
            scheds.push((Chunking::Cuts(cuts), budgets));
        }
        for (chunking, budgets) in &scheds {
            let run = run_sched(inp, mode, &chunking.lens(len), budgets, &fill);
            if run.calls.len() > 1 && run.calls[..run.calls.len() - 1].iter().any(|c| (12..=22).contains(&c.state_after)) {
                mid_block = true;
            }
            if !compare(rep, inp, &base, &run, mname, chunking, budgets, &base_tail) && rep.violations.len() > 30 {
                return;
            }
        }
    }
    if mid_block {
        let mut h = Hasher::new();
        h.bytes(&inp.bytes).u64(inp.zlib as u64);
        rep.nontrivial(h.finish());
        rep.sample(|| Json::obj(vec![("class", Json::s(inp.class)), ("zlib", Json::Bool(inp.zlib)), ("input_hex", Json::s(&hex_short(&inp.bytes, 300))), ("schedules", Json::s(if exhaustive { "every single cut point; 1/2/3-byte feeding; budgets {1,2,3,4,5,257,258,259,260} x {one-shot, fixed, one cut}; [0,1],[0,3]; 6 random cut x budget sequences; in flat, ring 32K and ring 32K/64K" } else { "24 random (cuts, budget sequence) schedules in flat and ring 32K" }))]));
    }
    let _ = ctx;
}

pub fn run(ctx: &Ctx, rep: &mut Report) {
    let n_ex = ctx.n(3200, 90_000);
    let n_big = ctx.n(800, 30_000);
    for k in ctx.cases(n_ex + n_big) {
        rep.cur_case = k;
        crate::ctx::begin_case(k);
        let mut rng = ctx.rng("case", k);
        if k < n_ex {
            let inp = gen_input(&mut rng, k, if ctx.thorough() { 3072 } else { 900 });
            check_input(ctx, rep, &inp, &mut rng, true);
        } else {
            // larger inputs, random schedules only
            let zl = rng.bool();
            let mut o = if k % 2 == 0 { grammar::GenOpts::large(zl) } else { grammar::GenOpts::medium(zl) };
            o.max_tokens = 8000;
            let g = grammar::random_stream(&mut rng, &o);
            let mut inp = Input { bytes: g.bytes, zlib: zl, class: "valid_large", plain: Some(g.plain) };
            if k % 3 == 0 {
                let (m, _) = faults::mutate(&mut rng, &inp.bytes, &[]);
                inp = Input { bytes: m, zlib: zl, class: "mutant_large", plain: None };
            }
            check_input(ctx, rep, &inp, &mut rng, false);
        }
    }
    if ctx.only_case.is_none() && ctx.tier != crate::ctx::Tier::Tiny {
        rep.gate("schedules_run", if ctx.thorough() { 5_000_000 } else { 200_000 });
    }
}
