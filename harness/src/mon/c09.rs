//! C09 — zlib framing is produced correctly and verified on decode.

use super::common::*;
use crate::ctx::{catch, Ctx};
use crate::gen::{data, grammar};
use crate::refimpl::checksums::adler32;
use crate::refimpl::inflate::{inflate as ref_inflate, Opts, Verdict};
use crate::report::{hex_short, Json, Report};
use crate::rng::{Hasher, Rng};
use miniz_oxide::deflate::core::{compress, CompressionStrategy, CompressorOxide, TDEFLFlush, TDEFLStatus};
use miniz_oxide::inflate::core::DecompressorOxide;
use miniz_oxide::inflate::stream::{inflate, InflateState};
use miniz_oxide::inflate::{decompress_to_vec_zlib, TINFLStatus};
use miniz_oxide::{DataFormat, MZError, MZFlush, MZStatus};

pub const STRATEGIES: [CompressionStrategy; 5] = [
    CompressionStrategy::Default,
    CompressionStrategy::Filtered,
    CompressionStrategy::HuffmanOnly,
    CompressionStrategy::RLE,
    CompressionStrategy::Fixed,
];

fn header_rules(cmf: u8, flg: u8) -> Vec<&'static str> {
    let mut v = Vec::new();
    if cmf & 15 != 8 {
        v.push("method");
    }
    if cmf >> 4 > 7 {
        v.push("window");
    }
    if flg & 0x20 != 0 {
        v.push("fdict");
    }
    if (cmf as u32 * 256 + flg as u32) % 31 != 0 {
        v.push("fcheck");
    }
    v
}

/// Producer side: compress under a configuration/schedule and inspect the framing.
fn producer(rep: &mut Report, rng: &mut Rng, k: u64) {
    let level = (k % 11) as u8;
    let strat = STRATEGIES[((k / 11) % 5) as usize];
    // window_bits 8..=15 systematically; every 5th case a value outside that range (the
    // constructor documents that it clamps, so the header must stay valid)
    let wbits = if k % 5 == 4 { *rng.pick(&[0u8, 1, 7, 16, 17, 20, 23, 24, 31, 32, 100, 255]) } else { 8 + ((k / 55) % 8) as u8 };
    let first_flush = (k / 440) % 2 == 1;
    let n = rng.size_biased(if k % 7 == 0 { 200_000 } else { 5000 });
    let cls = rng.below(data::NUM_CLASSES);
    let plain = data::gen(rng, cls, n);
    let mut c = CompressorOxide::with_params(DataFormat::Zlib, level, strat, wbits);
    if c.data_format() != DataFormat::Zlib {
        // window_bits == 0 makes with_params build a raw-format compressor (the object itself
        // reports DataFormat::Raw): not zlib-format output, nothing for this property to check
        rep.count("producer_not_zlib_format_window_bits_0");
        return;
    }
    let mut out = Vec::new();
    let mut pos = 0usize;
    let mut obuf = vec![0u8; *rng.pick(&[1usize, 7, 100, 4096, 200_000])];
    let mut first = true;
    let mut finishing = false;
    let mut calls = 0usize;
    let cfg = format!("level {} strategy {:?} window_bits {} first_flush {} n {} out_buf {}", level, strat, wbits, first_flush, n, obuf.len());
    loop {
        calls += 1;
        if calls > n * 3 + 200_000 {
            rep.violation("C09:producer-stalled", format!("compress loop did not finish ({})", cfg), Json::Null);
            return;
        }
        let chunk = if rng.chance(1, 5) { 0 } else { 1 + rng.size_biased(20_000) };
        let end = if finishing { plain.len() } else { (pos + chunk).min(plain.len()) };
        let flush = if first && first_flush {
            *rng.pick(&[TDEFLFlush::Sync, TDEFLFlush::Full, TDEFLFlush::Partial, TDEFLFlush::NoSync])
        } else if end == plain.len() {
            TDEFLFlush::Finish
        } else {
            *rng.pick(&[TDEFLFlush::None, TDEFLFlush::None, TDEFLFlush::Sync, TDEFLFlush::Full, TDEFLFlush::Partial])
        };
        let slice = if first && first_flush { &plain[0..0] } else { &plain[pos..end] };
        first = false;
        if flush == TDEFLFlush::Finish {
            finishing = true;
        }
        let r = match catch(|| compress(&mut c, slice, &mut obuf, flush)) {
            Ok(r) => r,
            Err(p) => {
                rep.violation(&format!("C09:panic:{}", p.site_file()), format!("compress panicked ({}): {}", cfg, p.text), Json::Null);
                return;
            }
        };
        pos += r.1;
        out.extend_from_slice(&obuf[..r.2]);
        match r.0 {
            TDEFLStatus::Done => break,
            TDEFLStatus::Okay => {}
            other => {
                rep.violation("C09:producer-status", format!("compress returned {:?} ({})", other, cfg), Json::Null);
                return;
            }
        }
    }
    rep.eval();
    rep.count("producer_streams");
    let det = || Json::obj(vec![("config", Json::s(&cfg)), ("output_hex_head", Json::s(&hex_short(&out, 64))), ("output_len", Json::u(out.len())), ("plain_hex", Json::s(&hex_short(&plain, 64)))]);
    if out.len() < 6 {
        rep.violation("C09:producer-too-short", format!("zlib output of {} bytes", out.len()), det());
        return;
    }
    let rules = header_rules(out[0], out[1]);
    if !rules.is_empty() {
        rep.violation(&format!("C09:producer-header:{}", rules.join("+")), format!("zlib header {:02x}{:02x} breaks RFC 1950 rule(s) {:?} ({})", out[0], out[1], rules, cfg), det());
        return;
    }
    let want = adler32(1, &plain);
    let got = u32::from_be_bytes([out[out.len() - 4], out[out.len() - 3], out[out.len() - 2], out[out.len() - 1]]);
    if want != got {
        rep.violation("C09:producer-trailer", format!("trailer {:08x} != Adler-32 of the input {:08x} ({})", got, want, cfg), det());
        return;
    }
    let r = ref_inflate(&out, Opts::zlib());
    match r.verdict {
        Verdict::Complete { consumed, .. } if consumed == out.len() && r.out == plain => {}
        v => {
            rep.violation("C09:producer-framing", format!("output is not exactly one zlib stream of the input: {:?} ({})", v, cfg), det());
            return;
        }
    }
    rep.count(&format!("producer_cinfo_{}", out[0] >> 4));
    if (out[0], out[1]) != (0x78, 0x9c) {
        let mut h = Hasher::new();
        h.bytes(&out);
        rep.nontrivial(h.finish());
    }
    rep.sample(|| det());
}

fn fixed_body(rng: &mut Rng) -> (Vec<u8>, Vec<u8>) {
    // a valid raw deflate body with small distances (decodable in a 256-byte ring)
    let mut o = grammar::GenOpts::small(false);
    o.max_dist = 200;
    o.max_tokens = 40;
    let g = grammar::random_stream(rng, &o);
    (g.bytes, g.plain)
}

/// Consumer side, exhaustive over all 65536 headers.
fn headers_exhaustive(rep: &mut Report, rng: &mut Rng, part: u64, parts: u64) {
    let (body, plain) = fixed_body(rng);
    let trailer = adler32(1, &plain).to_be_bytes();
    let rings = [256usize, 512, 1024, 4096, 32768, 65536];
    for hv in 0..65536u32 {
        if hv as u64 % parts != part {
            continue;
        }
        let cmf = (hv >> 8) as u8;
        let flg = hv as u8;
        let mut s = vec![cmf, flg];
        s.extend_from_slice(&body);
        s.extend_from_slice(&trailer);
        let broken = header_rules(cmf, flg);
        let declared = if cmf >> 4 <= 7 { 1usize << ((cmf >> 4) + 8) } else { usize::MAX };
        // flat
        for (mode, name) in std::iter::once((BufMode::Flat(plain.len() + 1), "flat".to_string())).chain(rings.iter().map(|&r| (BufMode::Ring(r), format!("ring{}", r)))) {
            let chunking = match hv % 3 {
                0 => Chunking::OneShot,
                1 => Chunking::Fixed(1),
                _ => Chunking::Cuts(vec![1, 2]),
            };
            let mut d = DecompressorOxide::new();
            let run = drive_core(&mut d, &s, F_ZLIB, &mode, &chunking.lens(s.len()), &[], None);
            rep.eval();
            let done = run.status == TINFLStatus::Done;
            let det = || Json::obj(vec![("header", Json::s(&format!("{:02x}{:02x}", cmf, flg))), ("mode", Json::s(&name)), ("chunking", Json::s(&chunking.describe())), ("stream_hex", Json::s(&hex_short(&s, 200))), ("calls", Json::s(&run.tail(4)))]);
            if let Some(p) = &run.panic {
                rep.violation(&format!("C09:panic:{}", p.site_file()), p.text.clone(), det());
                continue;
            }
            if !broken.is_empty() {
                rep.count("headers_invalid_tried");
                if done {
                    rep.violation(&format!("C09:bad-header-accepted:{}", broken.join("+")), format!("header {:02x}{:02x} breaks {:?} but decoding reported Done ({})", cmf, flg, broken, name), det());
                } else {
                    rep.count("headers_invalid_rejected");
                }
            } else {
                rep.count("headers_valid_tried");
                let ring_size = match &mode {
                    BufMode::Ring(r) => Some(*r),
                    _ => None,
                };
                let must_accept = match ring_size {
                    None => true,
                    Some(r) => r >= declared,
                };
                if must_accept {
                    if !done || run.out != plain || run.consumed != s.len() {
                        rep.violation("C09:good-header-rejected", format!("valid header {:02x}{:02x} (window {}) in {}: status {} out {} of {}", cmf, flg, declared, name, st_name(run.status), run.out.len(), plain.len()), det());
                    } else {
                        rep.count("headers_valid_accepted");
                    }
                } else {
                    // ring smaller than the declared window: documented rejection, recorded only
                    rep.count(if done { "small_ring_accepted" } else { "small_ring_rejected" });
                }
            }
        }
        // vector function and wrapper on a sample
        if hv % 64 == (part as u32 % 64) {
            let r = catch(|| decompress_to_vec_zlib(&s));
            rep.eval();
            match r {
                Ok(Ok(o)) if broken.is_empty() && o == plain => {}
                Ok(Err(_)) if !broken.is_empty() => {}
                Ok(Ok(_)) => rep.violation(&format!("C09:bad-header-accepted:{}:to_vec", broken.join("+")), format!("decompress_to_vec_zlib accepted header {:02x}{:02x}", cmf, flg), Json::obj(vec![("stream_hex", Json::s(&hex_short(&s, 200)))])),
                Ok(Err(e)) => rep.violation("C09:good-header-rejected:to_vec", format!("decompress_to_vec_zlib rejected valid header {:02x}{:02x}: {}", cmf, flg, st_name(e.status)), Json::obj(vec![("stream_hex", Json::s(&hex_short(&s, 200)))])),
                Err(p) => rep.violation(&format!("C09:panic:{}", p.site_file()), p.text, Json::Null),
            }
            let mut st = InflateState::new_boxed(DataFormat::Zlib);
            let run = drive_inflate(&mut st, &s, 1 + (hv as usize % 5), 7, hv % 2 == 0);
            rep.eval();
            let end = run.last == Ok(MZStatus::StreamEnd);
            if end != broken.is_empty() || (end && run.out != plain) {
                rep.violation(if end { "C09:bad-header-accepted:inflate" } else { "C09:good-header-rejected:inflate" }, format!("inflate() on header {:02x}{:02x} ({:?}): {}", cmf, flg, broken, mz_name(&run.last)), Json::obj(vec![("stream_hex", Json::s(&hex_short(&s, 200)))]));
            }
        }
    }
    rep.count("exhaustive_spaces");
}

/// Consumer side: trailer and body corruption.
fn trailers(rep: &mut Report, rng: &mut Rng, big: bool) {
    // stream with at least one stored block so that body flips keep the deflate stream valid
    let mut b = grammar::Builder::with_header(Some(grammar::random_valid_header(rng)));
    let n1 = if big { 20_000 + rng.below(60_000) } else { rng.below(300) };
    if big {
        while b.out_len() < n1 {
            grammar::random_tokens(&mut b, rng, 3000, 32768);
            b.end_fixed(false);
        }
    } else {
        grammar::random_tokens(&mut b, rng, n1, 32768);
        b.end_fixed(false);
    }
    let stored_n = 1 + rng.below(50);
    let stored = rng.bytes(stored_n);
    let stored_at_bit = b.w.bit_len();
    b.stored(&stored, false, 0);
    let n2 = rng.below(60);
    grammar::random_tokens(&mut b, rng, n2, 32768);
    let o = grammar::DynOpts::random(rng);
    let _ = b.end_dynamic(true, rng, &o);
    let g = b.finish(0);
    let n = g.bytes.len();
    let good = u32::from_be_bytes([g.bytes[n - 4], g.bytes[n - 3], g.bytes[n - 2], g.bytes[n - 1]]);
    // corruption list: (description, bytes)
    let mut variants: Vec<(String, Vec<u8>, bool)> = Vec::new(); // (what, stream, is_valid)
    variants.push(("pristine".into(), g.bytes.clone(), true));
    for bit in 0..32 {
        let mut v = g.bytes.clone();
        v[n - 4 + bit / 8] ^= 1 << (bit % 8);
        variants.push((format!("trailer bit {} flipped", bit), v, false));
    }
    for (what, val) in [("trailer zero", 0u32), ("trailer byte-swapped", good.swap_bytes()), ("trailer +1", good.wrapping_add(1)), ("trailer one", 1u32)] {
        if val != good {
            let mut v = g.bytes.clone();
            v[n - 4..].copy_from_slice(&val.to_be_bytes());
            variants.push((what.to_string(), v, false));
        }
    }
    for _ in 0..4 {
        let mut v = g.bytes.clone();
        let i = n - 4 + rng.below(4);
        let nv = rng.byte();
        if nv != v[i] {
            v[i] = nv;
            variants.push(("trailer byte replaced".into(), v, false));
        }
    }
    // body corruption inside the stored block payload (stream stays valid deflate, plaintext changes)
    let stored_payload_byte = (stored_at_bit + 3 + 7) / 8 + 4;
    for _ in 0..4 {
        let mut v = g.bytes.clone();
        let i = stored_payload_byte + rng.below(stored.len());
        v[i] ^= 1 << rng.below(8);
        variants.push(("stored payload bit flipped".into(), v, false));
    }
    let flat_cap = g.plain.len() + 1;
    for (what, s, valid) in &variants {
        // harness self-check of the variant's class
        let r = ref_inflate(s, Opts::zlib());
        let ref_valid = r.verdict.is_complete();
        let ref_mismatch = matches!(r.verdict, Verdict::Invalid { kind: crate::refimpl::inflate::InvalidKind::AdlerMismatch, .. });
        if ref_valid != *valid || (!valid && !ref_mismatch) {
            rep.inconclusive(format!("C09 variant '{}' classified {:?} by the reference decoder — harness bug", what, r.verdict));
            continue;
        }
        let scheds: Vec<(Chunking, Vec<usize>)> = vec![
            (Chunking::OneShot, vec![]),
            (Chunking::Fixed(1), vec![]),
            (Chunking::Cuts(vec![n - 4]), vec![]),
            (Chunking::Cuts(vec![n - 1]), vec![]),
            (Chunking::Cuts(vec![n - 4, n - 4, n - 2]), vec![]), // includes a zero-length call
            (Chunking::Cuts(vec![rng.below(n), n - 3]), vec![1 + rng.below(500)]),
            (Chunking::OneShot, vec![g.plain.len().max(1), 1]),
        ];
        for (chunking, budgets) in &scheds {
            for ring in [false, true] {
                for ignore in [false, true] {
                    if ignore && rng.chance(1, 2) {
                        continue;
                    }
                    let mode = if ring { BufMode::Ring(32768) } else { BufMode::Flat(flat_cap) };
                    // COMPUTE_ADLER32 must not change the verdict (the ignore flag overrides it)
                    let compute = rng.chance(1, 2);
                    let flags = F_ZLIB | if ignore { F_IGNORE } else { 0 } | if compute { F_ADLER } else { 0 };
                    rep.count(if compute { "corruption_runs_with_compute_flag" } else { "corruption_runs_without_compute_flag" });
                    let mut d = DecompressorOxide::new();
                    let run = drive_core(&mut d, s, flags, &mode, &chunking.lens(n), budgets, None);
                    rep.eval();
                    rep.count("corruption_runs_core");
                    let det = || Json::obj(vec![("variant", Json::s(what)), ("stream_hex", Json::s(&hex_short(s, 300))), ("stream_len", Json::u(n)), ("mode", Json::s(if ring { "ring32768" } else { "flat" })), ("chunking", Json::s(&chunking.describe())), ("budgets", Json::s(&format!("{:?}", budgets))), ("ignore_adler32", Json::Bool(ignore)), ("compute_adler32", Json::Bool(compute)), ("calls", Json::s(&run.tail(4)))]);
                    if let Some(p) = &run.panic {
                        rep.violation(&format!("C09:panic:{}", p.site_file()), p.text.clone(), det());
                        continue;
                    }
                    let want = if *valid || ignore { TINFLStatus::Done } else { TINFLStatus::Adler32Mismatch };
                    if run.status != want {
                        let sig = if run.status == TINFLStatus::Done { "C09:bad-checksum-accepted" } else if *valid { "C09:good-stream-rejected" } else if ignore { "C09:ignore-flag-not-honoured" } else { "C09:wrong-status-for-bad-checksum" };
                        rep.violation(&format!("{}:{}", sig, if ring { "ring" } else { "flat" }), format!("'{}' (ignore flag {}): final status {} but expected {}", what, ignore, st_name(run.status), st_name(want)), det());
                    } else if !valid && !ignore {
                        rep.count("corruptions_detected");
                        let mut h = Hasher::new();
                        h.bytes(s).bytes(chunking.describe().as_bytes()).u64(ring as u64);
                        rep.nontrivial(h.finish());
                    }
                    // decoder's exposed checksums
                    if run.status == TINFLStatus::Done && !ignore {
                        if run.adler != Some(adler32(1, &run.out)) {
                            rep.violation("C09:exposed-adler-wrong", format!("adler32() = {:?} but Adler-32 of the output is {:08x}", run.adler, adler32(1, &run.out)), det());
                        }
                    }
                }
            }
        }
        // wrapper: Zlib must report Data error, ZLibIgnoreChecksum must finish
        for fmt in [DataFormat::Zlib, DataFormat::ZLibIgnoreChecksum] {
            for (ic, oc, fin) in [(n, g.plain.len() + 10, true), (1, 1, false), (7, 40_000, false), (n - 4, 100, false)] {
                let mut st = InflateState::new_boxed(fmt);
                let run = drive_inflate(&mut st, s, ic.max(1), oc, fin);
                rep.eval();
                rep.count("corruption_runs_inflate");
                let want_end = *valid || fmt == DataFormat::ZLibIgnoreChecksum;
                let ok = if want_end { run.last == Ok(MZStatus::StreamEnd) && run.out == r.out } else { run.last == Err(MZError::Data) };
                if !ok && run.panic.is_none() {
                    rep.violation(if run.last == Ok(MZStatus::StreamEnd) { "C09:bad-checksum-accepted:inflate" } else { "C09:inflate-wrong-result" }, format!("inflate() {:?} on '{}' (in {} out {} finish {}): {} (expected {})", fmt, what, ic, oc, fin, mz_name(&run.last), if want_end { "StreamEnd" } else { "Err(Data)" }), Json::obj(vec![("variant", Json::s(what)), ("stream_hex", Json::s(&hex_short(s, 300)))]));
                }
                if let Some(p) = run.panic {
                    rep.violation(&format!("C09:panic:{}", p.site_file()), p.text, Json::Null);
                }
            }
        }
        // first-call Finish with checksum error
        {
            let mut st = InflateState::new_boxed(DataFormat::Zlib);
            let mut out = vec![0u8; g.plain.len() + 5];
            if let Ok(rr) = catch(|| inflate(&mut st, s, &mut out, MZFlush::Finish)) {
                rep.eval();
                let ok = if *valid { rr.status == Ok(MZStatus::StreamEnd) } else { rr.status == Err(MZError::Data) };
                if !ok {
                    rep.violation("C09:inflate-first-finish", format!("first-call Finish on '{}': {}", what, mz_name(&rr.status)), Json::obj(vec![("stream_hex", Json::s(&hex_short(s, 300)))]));
                }
            }
        }
        // vector function
        if let Ok(rv) = catch(|| decompress_to_vec_zlib(s)) {
            rep.eval();
            match (rv, valid) {
                (Ok(o), true) if o == g.plain => {}
                (Err(e), false) if e.status == TINFLStatus::Adler32Mismatch => {}
                (Ok(_), false) => rep.violation("C09:bad-checksum-accepted:to_vec", format!("decompress_to_vec_zlib accepted '{}'", what), Json::obj(vec![("stream_hex", Json::s(&hex_short(s, 300)))])),
                (x, _) => rep.violation("C09:to_vec-wrong-result", format!("decompress_to_vec_zlib on '{}': {:?}", what, x.map(|o| o.len()).map_err(|e| st_name(e.status))), Json::obj(vec![("stream_hex", Json::s(&hex_short(s, 300)))])),
            }
        }
    }
    rep.count("trailer_streams");
}

/// Empty payload with a bad trailer (final call produces no output at all).
fn empty_payload(rep: &mut Report, rng: &mut Rng) {
    let mut b = grammar::Builder::with_header(Some(grammar::random_valid_header(rng)));
    match rng.below(3) {
        0 => b.stored(&[], true, 0),
        1 => b.end_fixed(true),
        _ => {
            let o = grammar::DynOpts::random(rng);
            let _ = b.end_dynamic(true, rng, &o);
        }
    }
    let g = b.finish(0);
    let mut s = g.bytes.clone();
    let n = s.len();
    s[n - 1 - rng.below(4)] ^= 1 << rng.below(8);
    for chunking in [Chunking::OneShot, Chunking::Fixed(1), Chunking::Cuts(vec![n - 4])] {
        for ring in [false, true] {
            let mode = if ring { BufMode::Ring(32768) } else { BufMode::Flat(4) };
            let mut d = DecompressorOxide::new();
            let run = drive_core(&mut d, &s, F_ZLIB, &mode, &chunking.lens(n), &[], None);
            rep.eval();
            rep.count("empty_payload_runs");
            if run.status != TINFLStatus::Adler32Mismatch {
                rep.violation(if run.status == TINFLStatus::Done { "C09:bad-checksum-accepted:empty-payload" } else { "C09:wrong-status-for-bad-checksum" }, format!("empty stream with corrupted trailer: status {}", st_name(run.status)), Json::obj(vec![("stream_hex", Json::s(&hex_short(&s, 100))), ("chunking", Json::s(&chunking.describe()))]));
            } else {
                let mut h = Hasher::new();
                h.bytes(&s).bytes(chunking.describe().as_bytes());
                rep.nontrivial(h.finish());
            }
        }
    }
    if let Ok(Ok(_)) = catch(|| decompress_to_vec_zlib(&s)) {
        rep.violation("C09:bad-checksum-accepted:to_vec", "empty stream with corrupted trailer accepted by decompress_to_vec_zlib".into(), Json::obj(vec![("stream_hex", Json::s(&hex_short(&s, 100)))]));
    }
}

pub fn run(ctx: &Ctx, rep: &mut Report) {
    let n_prod = ctx.n(1760, 70_400);
    let n_hdr = 64u64; // the header space is split into 64 parts, all run in both tiers
    let n_tr = ctx.n(520, 16_000);
    let n_empty = ctx.n(100, 2_000);
    for k in ctx.cases(n_prod + n_hdr + n_tr + n_empty) {
        rep.cur_case = k;
        crate::ctx::begin_case(k);
        let mut rng = ctx.rng("case", k);
        if k < n_prod {
            producer(rep, &mut rng, k);
        } else if k < n_prod + n_hdr {
            // same body for all parts (seeded independently of the part index)
            let mut body_rng = ctx.rng("hdr-body", 0);
            headers_exhaustive(rep, &mut body_rng, k - n_prod, n_hdr);
        } else if k < n_prod + n_hdr + n_tr {
            trailers(rep, &mut rng, (k - n_prod - n_hdr) % 6 == 5);
        } else {
            empty_payload(rep, &mut rng);
        }
    }
    if ctx.only_case.is_none() && ctx.tier != crate::ctx::Tier::Tiny {
        rep.gate("headers_invalid_tried", 65536 - 256);
        rep.gate("exhaustive_spaces", 64);
    }
}
