//! C04 — the decoder never reports success on an invalid stream; a proper prefix of a valid
//! stream is never rejected as corrupt.

use super::common::*;
use crate::ctx::{catch, Ctx};
use crate::ffi::zlib::{self, ZResult};
use crate::gen::{faults, grammar};
use crate::refimpl::inflate::{inflate as ref_inflate, Opts, Verdict};
use crate::report::{hex_short, Json, Report};
use crate::rng::{Hasher, Rng};
use miniz_oxide::inflate::core::DecompressorOxide;
use miniz_oxide::inflate::stream::InflateState;
use miniz_oxide::inflate::{decompress_to_vec, decompress_to_vec_zlib, TINFLStatus};
use miniz_oxide::MZStatus;

/// position-dependent, never-zero ring pre-fill so that "before stream start" reads are visible
pub fn ring_fill(size: usize) -> Vec<u8> {
    (0..size).map(|i| (((i * 7 + 13) % 251) + 1) as u8).collect()
}

fn schedules(rng: &mut Rng, len: usize, quick_subset: bool) -> Vec<(Chunking, Vec<usize>)> {
    let mut v = vec![(Chunking::OneShot, vec![])];
    v.push((Chunking::Fixed(1), vec![]));
    let n = if quick_subset { 2 } else { 3 };
    for _ in 0..n {
        let mut cuts: Vec<usize> = (0..1 + rng.below(4)).map(|_| rng.below(len + 1)).collect();
        cuts.sort();
        let budgets = match rng.below(3) {
            0 => vec![],
            1 => vec![1 + rng.below(5)],
            _ => {
                let mut b: Vec<usize> = (0..3).map(|_| rng.below(300)).collect();
                b.push(1 + rng.below(600));
                b
            }
        };
        v.push((Chunking::Cuts(cuts), budgets));
    }
    v
}

/// (A) soundness: run `input` under the schedule in `mode`; if the code reports Done the
/// reference decoder (same mode) must agree on validity, consumed count and output.
#[allow(clippy::too_many_arguments)]
fn soundness(
    rep: &mut Report,
    input: &[u8],
    zl: bool,
    ring_size: usize,
    chunking: &Chunking,
    budgets: &[usize],
    what: &str,
    out_hint: usize,
) -> Option<DecRun> {
    // ring_size 0 = flat buffer; otherwise a power-of-two ring (32 KiB, or smaller: a distance
    // larger than the ring is then invalid, a defined error of the decoder)
    let ring = ring_size != 0;
    let fill = ring_fill(ring_size.max(1));
    let base = if zl { F_ZLIB } else { 0 };
    let mode = if ring { BufMode::Ring(ring_size) } else { BufMode::Flat(out_hint + 700) };
    let lens = chunking.lens(input.len());
    let mut d = DecompressorOxide::new();
    let run = drive_core(&mut d, input, base, &mode, &lens, budgets, if ring { Some(&fill) } else { None });
    rep.count(if !ring { "runs_flat" } else if ring_size == 32768 { "runs_ring" } else { "runs_small_ring" });
    let det = |run: &DecRun| {
        Json::obj(vec![
            ("input_hex", Json::s(&hex_short(input, 600))),
            ("input_len", Json::u(input.len())),
            ("zlib", Json::Bool(zl)),
            ("mode", Json::s(&if ring { format!("ring{} (pre-filled ((i*7+13)%251)+1)", ring_size) } else { "flat".to_string() })),
            ("chunking", Json::s(&chunking.describe())),
            ("budgets", Json::s(&format!("{:?}", budgets))),
            ("what", Json::s(what)),
            ("last_calls", Json::s(&run.tail(6))),
        ])
    };
    if let Some(p) = &run.panic {
        // C04 does not own panics (C05 does) but a panic is never an acceptable verdict either
        rep.violation(&format!("C04:panic:{}", p.site_file()), format!("decoder panicked on {}: {}", what, p.text), det(&run));
        return Some(run);
    }
    if run.stalled {
        rep.violation("C04:stalled", format!("driver made no progress on {}: {}", what, run.tail(4)), det(&run));
        return Some(run);
    }
    if run.status == TINFLStatus::Done {
        let o = if ring { Opts::fmt(zl).ring(&fill, 0) } else { Opts::fmt(zl) };
        let r = ref_inflate(input, o);
        let agree = matches!(r.verdict, Verdict::Complete { consumed, .. } if consumed == run.consumed) && r.out == run.out;
        if !agree {
            // oracle-disagreement rule: consult zlib (flat semantics only) before blaming the code
            let mut excuse = false;
            if !ring && zlib::available() {
                if let ZResult::Ok(o2, used) = zlib::inflate(input, if zl { 15 } else { -15 }, 65536, usize::MAX) {
                    if o2 == run.out && used == run.consumed {
                        excuse = true;
                    }
                }
            }
            if excuse {
                rep.inconclusive(format!("oracle disagreement on {}: code Done, refimpl {:?}, zlib accepts", what, r.verdict));
            } else {
                let kind = match r.verdict {
                    Verdict::Invalid { kind, .. } => format!("accepted-invalid:{}", kind.name()),
                    Verdict::Truncated { .. } => "accepted-truncated".to_string(),
                    Verdict::Complete { .. } => "wrong-output-or-consumed".to_string(),
                };
                rep.violation(
                    &format!("C04:{}:{}", kind, if !ring { "flat" } else if ring_size == 32768 { "ring" } else { "small-ring" }),
                    format!("decoder reported Done (consumed {}, {} bytes out) but the reference says {:?} ({} bytes out) for {}", run.consumed, run.out.len(), r.verdict, r.out.len(), what),
                    det(&run),
                );
            }
        } else {
            rep.count("done_and_reference_agrees");
        }
    } else {
        rep.count(&format!("status_{}", st_name(run.status)));
    }
    Some(run)
}

fn targeted(ctx: &Ctx, rep: &mut Report, k: u64) {
    let mut rng = ctx.rng("targeted", k);
    let kind = faults::ALL_KINDS[(k % faults::ALL_KINDS.len() as u64) as usize];
    let deep = (k / faults::ALL_KINDS.len() as u64) % 2 == 1;
    let mut f = None;
    for _ in 0..20 {
        if let Some(x) = faults::build(&mut rng, kind, deep) {
            f = Some(x);
            break;
        }
    }
    let f = match f {
        Some(f) => f,
        None => {
            rep.count("targeted_infeasible");
            return;
        }
    };
    // harness self-check: the reference decoder must classify the stream as intended
    let r = ref_inflate(&f.bytes, Opts::fmt(f.zlib));
    let got = match r.verdict {
        Verdict::Invalid { kind, .. } => kind.name(),
        v => format!("{:?}", v),
    };
    if got != f.kind.expected_ref() {
        rep.inconclusive(format!("fault generator self-check: {:?} deep={} classified by refimpl as {} (expected {}) — harness bug; stream {}", f.kind, deep, got, f.kind.expected_ref(), hex_short(&f.bytes, 200)));
        return;
    }
    rep.eval();
    rep.count(&format!("kind_{}_generated", f.kind.name()));
    let what = format!("targeted violation {:?} (deep={}, {})", f.kind, deep, f.desc);
    let mut accepted = false;
    for (chunking, budgets) in schedules(&mut rng, f.bytes.len(), ctx.quick()) {
        let small = SMALL_RINGS[rng.below(SMALL_RINGS.len())];
        for ring in [0usize, 32768, small] {
            // DistanceBeforeStart is only a violation with a flat buffer (ring semantics differ)
            if let Some(run) = soundness(rep, &f.bytes, f.zlib, ring, &chunking, &budgets, &what, r.out.len()) {
                if run.status == TINFLStatus::Done {
                    accepted = true;
                } else if run.final_state >= FIRST_FAILURE_STATE {
                    rep.set_insert("failure_states_reached", state_name(run.final_state));
                    rep.count(&format!("kind_{}_rejected_as_{}", f.kind.name(), st_name(run.status)));
                }
            }
        }
    }
    // vector function and streaming wrapper (flat / zero-ring semantics)
    let v = catch(|| if f.zlib { decompress_to_vec_zlib(&f.bytes) } else { decompress_to_vec(&f.bytes) });
    match v {
        Ok(Ok(out)) => {
            rep.violation(&format!("C04:accepted-invalid:{}:to_vec", got), format!("decompress_to_vec accepted {} ({} bytes out)", what, out.len()), Json::obj(vec![("input_hex", Json::s(&hex_short(&f.bytes, 600))), ("zlib", Json::Bool(f.zlib))]));
            accepted = true;
        }
        Ok(Err(_)) => rep.count("to_vec_rejected"),
        Err(p) => rep.violation(&format!("C04:panic:{}", p.site_file()), format!("decompress_to_vec panicked on {}: {}", what, p.text), Json::obj(vec![("input_hex", Json::s(&hex_short(&f.bytes, 600)))])),
    }
    wrapper_soundness(rep, &f.bytes, f.zlib, &mut rng, &what);
    if !accepted {
        rep.count(&format!("kind_{}_never_accepted", f.kind.name()));
    }
    let mut h = Hasher::new();
    h.bytes(&f.bytes);
    if f.deep || !f.kind.needs_zlib() {
        rep.nontrivial(h.finish());
    }
    if f.deep {
        rep.sample(|| Json::obj(vec![("kind", Json::s(&f.kind.name())), ("deep", Json::Bool(deep)), ("zlib", Json::Bool(f.zlib)), ("stream_hex", Json::s(&hex_short(&f.bytes, 300))), ("reference_verdict", Json::s(&got)), ("schedules", Json::s("one-shot, 1-byte, random cuts x budgets; flat and ring 32K; to_vec; inflate()"))]));
    }
}

/// `inflate()` wrapper: StreamEnd must mean the reference (ring of zeros for the streaming
/// path) accepts with the same output.
fn wrapper_soundness(rep: &mut Report, input: &[u8], zl: bool, rng: &mut Rng, what: &str) {
    let zeros = vec![0u8; 32768];
    let mut st = InflateState::new_boxed(fmt_of(zl));
    let in_chunk = *rng.pick(&[1usize, 3, 64, 100_000]);
    let out_chunk = *rng.pick(&[1usize, 7, 300, 40_000]);
    let run = drive_inflate(&mut st, input, in_chunk, out_chunk, rng.bool());
    rep.count("runs_inflate_wrapper");
    if let Some(p) = &run.panic {
        rep.violation(&format!("C04:panic:{}", p.site_file()), format!("inflate() panicked on {}: {}", what, p.text), Json::obj(vec![("input_hex", Json::s(&hex_short(input, 600)))]));
        return;
    }
    if run.last == Ok(MZStatus::StreamEnd) {
        let r = ref_inflate(input, Opts::fmt(zl).ring(&zeros, 0));
        // a first-call Finish decodes flat; accept either reference semantics, both must be Complete
        let rf = ref_inflate(input, Opts::fmt(zl));
        let ok_ring = matches!(r.verdict, Verdict::Complete { consumed, .. } if consumed == run.consumed) && r.out == run.out;
        let ok_flat = matches!(rf.verdict, Verdict::Complete { consumed, .. } if consumed == run.consumed) && rf.out == run.out;
        if !ok_ring && !ok_flat {
            rep.violation(
                "C04:wrapper-accepted-invalid",
                format!("inflate() reported StreamEnd (consumed {}, {} bytes) but the reference says {:?} for {}", run.consumed, run.out.len(), r.verdict, what),
                Json::obj(vec![("input_hex", Json::s(&hex_short(input, 600))), ("zlib", Json::Bool(zl)), ("in_chunk", Json::u(in_chunk)), ("out_chunk", Json::u(out_chunk))]),
            );
        }
    }
}

const SMALL_RINGS: [usize; 6] = [256, 512, 1024, 4096, 8192, 16384];

/// (A') valid streams (for a 32 KiB window) decoded into rings smaller than their largest
/// distance: the decoder must never report Done where the reference, given the same ring,
/// reports a distance beyond the ring.
fn small_rings(ctx: &Ctx, rep: &mut Report, k: u64) {
    let mut rng = ctx.rng("small_rings", k);
    let s = valid_stream(&mut rng, k % 4 != 0);
    rep.eval();
    let what = format!("unmodified valid {} stream decoded in a ring smaller than the window", if s.zlib { "zlib" } else { "raw" });
    let sch = schedules(&mut rng, s.bytes.len(), ctx.quick());
    let ring = SMALL_RINGS[(k % SMALL_RINGS.len() as u64) as usize];
    let r = ref_inflate(&s.bytes, Opts::fmt(s.zlib).ring(&ring_fill(ring), 0));
    let beyond = matches!(r.verdict, Verdict::Invalid { kind, .. } if kind.name() == "DistanceBeyondRing");
    rep.count(if beyond { "small_ring_streams_with_distance_beyond_ring" } else { "small_ring_streams_other" });
    for (chunking, budgets) in sch {
        soundness(rep, &s.bytes, s.zlib, ring, &chunking, &budgets, &what, s.plain.len());
    }
    if beyond {
        let mut h = Hasher::new();
        h.bytes(&s.bytes).u64(ring as u64);
        rep.nontrivial(h.finish());
    }
}

fn valid_stream(rng: &mut Rng, small: bool) -> grammar::GenStream {
    let zl = rng.bool();
    let mut o = if small { grammar::GenOpts::small(zl) } else { grammar::GenOpts::medium(zl) };
    o.random_header = rng.chance(1, 3);
    grammar::random_stream(rng, &o)
}

fn mutants(ctx: &Ctx, rep: &mut Report, k: u64) {
    let mut rng = ctx.rng("mutants", k);
    let a = valid_stream(&mut rng, k % 3 != 0);
    let b = valid_stream(&mut rng, true);
    let n = if ctx.quick() { 6 } else { 10 };
    for _ in 0..n {
        let (m, how) = faults::mutate(&mut rng, &a.bytes, &b.bytes);
        rep.eval();
        rep.count(&format!("mutant_{}", how));
        let zl = if rng.chance(1, 8) { !a.zlib } else { a.zlib };
        let what = format!("generic mutant ({}) of a valid {} stream", how, if a.zlib { "zlib" } else { "raw" });
        let ring = match rng.below(5) {
            0 | 1 => 0usize,
            2 | 3 => 32768,
            _ => SMALL_RINGS[rng.below(SMALL_RINGS.len())],
        };
        let sch = schedules(&mut rng, m.len(), true);
        let (chunking, budgets) = rng.pick(&sch).clone();
        soundness(rep, &m, zl, ring, &chunking, &budgets, &what, a.plain.len());
        if rng.chance(1, 4) {
            wrapper_soundness(rep, &m, zl, &mut rng, &what);
        }
        let mut h = Hasher::new();
        h.bytes(&m).u64(zl as u64);
        if m.len() > 8 {
            rep.nontrivial(h.finish());
        }
    }
}

/// (B) proper prefixes of valid streams.
fn prefixes(ctx: &Ctx, rep: &mut Report, k: u64) {
    let mut rng = ctx.rng("prefixes", k);
    let s = valid_stream(&mut rng, k % 2 == 0);
    if s.bytes.len() > 6000 {
        return;
    }
    let base = if s.zlib { F_ZLIB } else { 0 };
    let all = s.bytes.len() <= 4096 && (ctx.thorough() || s.bytes.len() <= 400);
    let lens: Vec<usize> = if all { (0..s.bytes.len()).collect() } else { (0..40).map(|_| rng.below(s.bytes.len())).collect() };
    for plen in lens {
        let p = &s.bytes[..plen];
        for with_flag in [true, false] {
            for ring in [false, true] {
                if ring && rng.chance(1, 2) {
                    continue;
                }
                rep.eval();
                let chunking = match rng.below(3) {
                    0 => Chunking::OneShot,
                    1 => Chunking::Fixed(1 + rng.below(5)),
                    _ => Chunking::Cuts(vec![rng.below(plen + 1)]),
                };
                let budgets: Vec<usize> = if rng.chance(1, 3) { vec![1 + rng.below(40)] } else { vec![] };
                let mode = if ring { BufMode::Ring(32768) } else { BufMode::Flat(s.plain.len() + 64) };
                let mut d = DecompressorOxide::new();
                let run = drive_core_ex(&mut d, p, base, &mode, &chunking.lens(plen), &budgets, None, with_flag);
                rep.count(if with_flag { "prefix_runs_with_more_flag" } else { "prefix_runs_without_flag" });
                let expect = if with_flag { TINFLStatus::NeedsMoreInput } else { TINFLStatus::FailedCannotMakeProgress };
                let good = run.panic.is_none() && !run.stalled && run.status == expect && s.plain.starts_with(&run.out);
                if !good {
                    let sig = if run.panic.is_some() {
                        "C04:prefix:panic".to_string()
                    } else if run.stalled {
                        "C04:prefix:stalled".to_string()
                    } else if !s.plain.starts_with(&run.out) {
                        "C04:prefix:output-not-a-prefix".to_string()
                    } else {
                        format!("C04:prefix:{}:{}", if with_flag { "more" } else { "nomore" }, st_name(run.status))
                    };
                    rep.violation(
                        &sig,
                        format!("proper prefix ({} of {} bytes) of a valid stream, HAS_MORE_INPUT={}, {}: final status {} (expected {}), out {} bytes; {}", plen, s.bytes.len(), with_flag, if ring { "ring" } else { "flat" }, st_name(run.status), st_name(expect), run.out.len(), run.tail(4)),
                        Json::obj(vec![("stream_hex", Json::s(&hex_short(&s.bytes, 600))), ("prefix_len", Json::u(plen)), ("zlib", Json::Bool(s.zlib)), ("chunking", Json::s(&chunking.describe())), ("budgets", Json::s(&format!("{:?}", budgets)))]),
                    );
                }
                let mut h = Hasher::new();
                h.bytes(p).u64(with_flag as u64).u64(ring as u64).u64(s.zlib as u64);
                if plen > 2 {
                    rep.nontrivial(h.finish());
                }
            }
        }
    }
    rep.count("prefix_streams");
}

pub fn run(ctx: &Ctx, rep: &mut Report) {
    let n_t = ctx.n(26 * 2 * 60, 26 * 2 * 1200);
    let n_m = ctx.n(20_000, 400_000);
    let n_p = ctx.n(3000, 60_000);
    let n_r = ctx.n(3000, 60_000);
    for k in ctx.cases(n_t + n_m + n_p + n_r) {
        rep.cur_case = k;
        crate::ctx::begin_case(k);
        if k < n_t {
            targeted(ctx, rep, k);
        } else if k < n_t + n_m {
            mutants(ctx, rep, k - n_t);
        } else if k < n_t + n_m + n_p {
            prefixes(ctx, rep, k - n_t - n_m);
        } else {
            small_rings(ctx, rep, k - n_t - n_m - n_p);
        }
    }
    if ctx.only_case.is_none() && ctx.tier != crate::ctx::Tier::Tiny {
        for kind in faults::ALL_KINDS.iter() {
            rep.gate(&format!("kind_{}_generated", kind.name()), if ctx.thorough() { 200 } else { 10 });
        }
    }
}
