//! C17 — C ABI shim: same results as the Rust API, exact accounting, stays inside buffers,
//! misuse returns error codes.
//!
//! One driver, three instruments: native with guard-page buffers (mode "native"), the same
//! workload under AddressSanitizer with exact-size heap buffers (mode "asan"), and small
//! workloads under Miri / valgrind (tier tiny, modes "miri" / "valgrind"). Misuse rows run in a
//! forked child so that a crash is attributed to its row and does not end the run.

use crate::ctx::{catch, Ctx};
use crate::ffi::guard::Guarded;
use crate::gen::{data, grammar};
use crate::report::{hex_short, Json, Report};
use crate::rng::{Hasher, Rng};
use libc::{c_int, c_void};
use miniz_oxide::deflate::core::{compress, compress_to_output, create_comp_flags_from_zip_params, deflate_flags, CompressorOxide, TDEFLFlush, TDEFLStatus};
use miniz_oxide::deflate::stream::deflate;
use miniz_oxide::inflate::core::{decompress, DecompressorOxide};
use miniz_oxide::inflate::stream::{inflate, InflateState};
use miniz_oxide::{MZError, MZFlush, MZStatus};
use miniz_oxide_c_api::*;

extern "C" {
    fn tinfl_decompressor_alloc() -> *mut tinfl_decompressor;
    fn tinfl_decompressor_free(c: *mut tinfl_decompressor);
    fn tinfl_init(c: *mut tinfl_decompressor);
    fn tinfl_get_adler32(c: *mut tinfl_decompressor) -> c_int;
}

#[derive(Clone, Copy, PartialEq, Eq, Debug)]
enum Instr {
    Guard,
    /// exact-size heap buffers (ASan / Miri / valgrind see any overrun)
    Heap,
}

/// A caller-owned buffer with nothing accessible around it.
enum Buf {
    G(Guarded),
    H(Vec<u8>),
}

impl Buf {
    fn new(instr: Instr, len: usize, at_end: bool) -> Buf {
        match instr {
            Instr::Guard => Buf::G(Guarded::new(len, at_end)),
            Instr::Heap => Buf::H(vec![0u8; len]),
        }
    }
    fn from(instr: Instr, data: &[u8], at_end: bool) -> Buf {
        let mut b = Buf::new(instr, data.len(), at_end);
        b.slice_mut().copy_from_slice(data);
        b
    }
    fn ptr(&mut self) -> *mut u8 {
        match self {
            Buf::G(g) => g.ptr(),
            Buf::H(v) => v.as_mut_ptr(),
        }
    }
    fn slice(&self) -> &[u8] {
        match self {
            Buf::G(g) => g.as_slice(),
            Buf::H(v) => v,
        }
    }
    fn slice_mut(&mut self) -> &mut [u8] {
        match self {
            Buf::G(g) => g.as_mut_slice(),
            Buf::H(v) => v,
        }
    }
}

fn mz_code(r: &Result<MZStatus, MZError>) -> c_int {
    match r {
        Ok(s) => *s as c_int,
        Err(e) => *e as c_int,
    }
}

fn det(what: &str, extra: Vec<(&str, Json)>) -> Json {
    let mut v = vec![("scenario", Json::s(what))];
    v.extend(extra);
    Json::obj(v)
}

// ------------------------------------------------------------------ mz_deflate / mz_inflate

/// mz_deflate against deflate() in lock-step, with pointer / counter accounting.
fn sc_mz_deflate(rep: &mut Report, rng: &mut Rng, instr: Instr, max: usize) {
    let level = rng.range(0, 11) as i32 - 1;
    let strategy = rng.below(5) as i32;
    let wbits = if rng.bool() { 15 } else { -15 };
    let n = rng.size_biased(max);
    let cls = rng.below(data::NUM_CLASSES);
    let plain = data::gen(rng, cls, n);
    let mut input = Buf::from(instr, &plain, rng.bool());
    let mut s = mz_stream::default();
    let rc = unsafe { mz_deflateInit2(&mut s, level, 8, wbits, 1 + rng.below(9) as i32, strategy) };
    if rc != 0 {
        rep.violation("C17:mz_deflateInit2-failed", format!("rc {}", rc), Json::Null);
        return;
    }
    let flags = deflate_flags::TDEFL_COMPUTE_ADLER32 | create_comp_flags_from_zip_params(level, wbits, strategy);
    let mut twin = CompressorOxide::new(flags);
    let mut pos = 0usize;
    let mut calls = 0usize;
    let what = format!("mz_deflate level {} strategy {} wbits {} n {}", level, strategy, wbits, n);
    let mut finishing = false;
    loop {
        calls += 1;
        if calls > n * 2 + 10_000 {
            rep.violation("C17:mz_deflate-stalled", "no MZ_STREAM_END".into(), det(&what, vec![]));
            break;
        }
        let avail_in = if finishing { n - pos } else { rng.size_biased(n - pos + 1).min(n - pos) };
        let avail_out = *rng.pick(&[1usize, 2, 5, 64, 1000, 70_000]);
        let flush = if finishing || pos + avail_in == n && rng.bool() { 4 } else { *rng.pick(&[0, 0, 1, 2, 3]) };
        if flush == 4 {
            finishing = true;
        }
        let avail_in = if finishing { n - pos } else { avail_in };
        let mut out = Buf::new(instr, avail_out, rng.bool());
        let in_ptr = unsafe { input.ptr().add(pos) };
        let out_ptr = out.ptr();
        s.next_in = in_ptr;
        s.avail_in = avail_in as u32;
        s.next_out = out_ptr;
        s.avail_out = avail_out as u32;
        let (ti, to) = (s.total_in, s.total_out);
        let rc = unsafe { mz_deflate(&mut s, flush) };
        rep.eval();
        rep.count("mz_deflate_calls");
        // accounting
        let d_in = avail_in as i64 - s.avail_in as i64;
        let d_out = avail_out as i64 - s.avail_out as i64;
        let acc_ok = d_in >= 0 && d_out >= 0 && s.next_in == unsafe { in_ptr.add(d_in.max(0) as usize) } && s.next_out == unsafe { out_ptr.add(d_out.max(0) as usize) } && (s.total_in - ti) as i64 == d_in && (s.total_out - to) as i64 == d_out;
        if !acc_ok {
            rep.violation("C17:mz_deflate-accounting", format!("call {}: avail_in {}->{}, avail_out {}->{}, total_in +{}, total_out +{}, next_in moved {}, next_out moved {}", calls, avail_in, s.avail_in, avail_out, s.avail_out, s.total_in - ti, s.total_out - to, s.next_in as isize - in_ptr as isize, s.next_out as isize - out_ptr as isize), det(&what, vec![("call", Json::u(calls))]));
            break;
        }
        // the Rust call on the same data
        let mut tout = vec![0u8; avail_out];
        let r = deflate(&mut twin, &plain[pos..pos + avail_in], &mut tout, MZFlush::new(flush).unwrap());
        if mz_code(&r.status) != rc || r.bytes_consumed as i64 != d_in || r.bytes_written as i64 != d_out || tout[..r.bytes_written] != out.slice()[..d_out as usize] || twin.adler32() != s.adler as u32 {
            rep.violation(
                "C17:mz_deflate-differs-from-rust",
                format!("call {} (flush {}, avail_in {}, avail_out {}): C rc {} consumed {} written {} adler {:08x}; Rust {:?} consumed {} written {} adler {:08x}", calls, flush, avail_in, avail_out, rc, d_in, d_out, s.adler, r.status, r.bytes_consumed, r.bytes_written, twin.adler32()),
                det(&what, vec![("plain_hex", Json::s(&hex_short(&plain, 100)))]),
            );
            break;
        }
        pos += d_in as usize;
        if rc == 1 {
            break;
        }
        if rc < 0 && rc != -5 {
            rep.violation("C17:mz_deflate-error", format!("rc {} on a legal schedule", rc), det(&what, vec![]));
            break;
        }
    }
    // (the per-call output buffers are gone by now: do not leave stale pointers in the stream)
    s.next_in = std::ptr::null();
    s.avail_in = 0;
    s.next_out = std::ptr::null_mut();
    s.avail_out = 0;
    unsafe { mz_deflateEnd(&mut s) };
    if calls >= 2 {
        let mut h = Hasher::new();
        h.bytes(&plain).u64(level as u64).u64(strategy as u64).u64(calls as u64);
        rep.nontrivial(h.finish());
    }
    let _ = &mut input;
}

fn sc_mz_inflate(rep: &mut Report, rng: &mut Rng, instr: Instr, max: usize) {
    let zl = rng.bool();
    let (bytes, plain) = if rng.bool() {
        let mut o = grammar::GenOpts::medium(zl);
        o.max_tokens = max.min(3000);
        let g = grammar::random_stream(rng, &o);
        (g.bytes, g.plain)
    } else {
        let n = rng.size_biased(max);
        let cls = rng.below(data::NUM_CLASSES);
        let p = data::gen(rng, cls, n);
        let lvl = rng.below(11) as u8;
        (if zl { miniz_oxide::deflate::compress_to_vec_zlib(&p, lvl) } else { miniz_oxide::deflate::compress_to_vec(&p, lvl) }, p)
    };
    // sometimes corrupt or truncate: error paths must agree too
    let bytes = match rng.below(6) {
        0 => crate::gen::faults::mutate(rng, &bytes, &[]).0,
        1 => bytes[..rng.below(bytes.len() + 1)].to_vec(),
        _ => bytes,
    };
    let mut input = Buf::from(instr, &bytes, rng.bool());
    let mut s = mz_stream::default();
    if unsafe { mz_inflateInit2(&mut s, if zl { 15 } else { -15 }) } != 0 {
        return;
    }
    let mut twin = InflateState::new_boxed(if zl { miniz_oxide::DataFormat::Zlib } else { miniz_oxide::DataFormat::Raw });
    let what = format!("mz_inflate zlib {} stream {} bytes -> {} bytes", zl, bytes.len(), plain.len());
    let mut pos = 0usize;
    let mut calls = 0;
    let mut idle = 0;
    let finish_all = rng.chance(1, 4);
    loop {
        calls += 1;
        if calls > bytes.len() * 2 + plain.len() * 2 + 1000 || idle > 5 {
            break;
        }
        let avail_in = if finish_all { bytes.len() - pos } else { rng.size_biased(bytes.len() - pos + 1).min(bytes.len() - pos) };
        let avail_out = if finish_all { plain.len() + 10 } else { *rng.pick(&[1usize, 3, 100, 5000, 40_000, 70_000]) };
        let flush = if finish_all { 4 } else { *rng.pick(&[0, 0, 2]) };
        let mut out = Buf::new(instr, avail_out, rng.bool());
        let in_ptr = unsafe { input.ptr().add(pos) };
        let out_ptr = out.ptr();
        s.next_in = in_ptr;
        s.avail_in = avail_in as u32;
        s.next_out = out_ptr;
        s.avail_out = avail_out as u32;
        let (ti, to) = (s.total_in, s.total_out);
        let rc = unsafe { mz_inflate(&mut s, flush) };
        rep.eval();
        rep.count("mz_inflate_calls");
        let d_in = avail_in as i64 - s.avail_in as i64;
        let d_out = avail_out as i64 - s.avail_out as i64;
        let acc_ok = d_in >= 0 && d_out >= 0 && s.next_in == unsafe { in_ptr.add(d_in.max(0) as usize) } && s.next_out == unsafe { out_ptr.add(d_out.max(0) as usize) } && (s.total_in - ti) as i64 == d_in && (s.total_out - to) as i64 == d_out;
        if !acc_ok {
            rep.violation("C17:mz_inflate-accounting", format!("call {}: avail_in {}->{}, avail_out {}->{}, total_in +{}, total_out +{}", calls, avail_in, s.avail_in, avail_out, s.avail_out, s.total_in - ti, s.total_out - to), det(&what, vec![]));
            break;
        }
        let mut tout = vec![0u8; avail_out];
        let r = inflate(&mut twin, &bytes[pos..pos + avail_in], &mut tout, MZFlush::new(flush).unwrap());
        if mz_code(&r.status) != rc || r.bytes_consumed as i64 != d_in || r.bytes_written as i64 != d_out || tout[..r.bytes_written] != out.slice()[..d_out as usize] {
            rep.violation(
                "C17:mz_inflate-differs-from-rust",
                format!("call {} (flush {}, avail_in {}, avail_out {}): C rc {} consumed {} written {}; Rust {:?} consumed {} written {}", calls, flush, avail_in, avail_out, rc, d_in, d_out, r.status, r.bytes_consumed, r.bytes_written),
                det(&what, vec![("stream_hex", Json::s(&hex_short(&bytes, 200)))]),
            );
            break;
        }
        pos += d_in as usize;
        if d_in == 0 && d_out == 0 {
            idle += 1;
        } else {
            idle = 0;
        }
        if rc == 1 || (rc < 0 && rc != -5) {
            break;
        }
    }
    s.next_in = std::ptr::null();
    s.avail_in = 0;
    s.next_out = std::ptr::null_mut();
    s.avail_out = 0;
    unsafe { mz_inflateEnd(&mut s) };
    if calls >= 2 {
        let mut h = Hasher::new();
        h.bytes(&bytes).u64(calls as u64).u64(zl as u64);
        rep.nontrivial(h.finish());
    }
    let _ = &mut input;
}

/// mz_compress2 / mz_compress / mz_uncompress vs the Rust streaming calls they correspond to.
fn sc_oneshot(rep: &mut Report, rng: &mut Rng, instr: Instr, max: usize) {
    let n = rng.size_biased(max);
    let cls = rng.below(data::NUM_CLASSES);
    let plain = data::gen(rng, cls, n);
    let level = rng.range(0, 11) as i32 - 1;
    let bound = mz_compressBound(n as _) as usize;
    let cap = match rng.below(4) {
        0 => bound,
        1 => rng.below(bound + 1),
        _ => bound + rng.below(100),
    };
    let mut src = Buf::from(instr, &plain, rng.bool());
    let mut dst = Buf::new(instr, cap, rng.bool());
    let mut dl = cap as libc::c_ulong;
    let use2 = rng.bool();
    let rc = unsafe {
        if use2 {
            mz_compress2(dst.ptr(), &mut dl, src.ptr(), n as _, level)
        } else {
            mz_compress(dst.ptr(), &mut dl, src.ptr(), n as _)
        }
    };
    rep.eval();
    rep.count("oneshot_compress_calls");
    let lvl = if use2 { level } else { -1 };
    let flags = deflate_flags::TDEFL_COMPUTE_ADLER32 | create_comp_flags_from_zip_params(lvl, 15, 0);
    let mut twin = CompressorOxide::new(flags);
    let mut tout = vec![0u8; cap];
    let r = if cap == 0 { miniz_oxide::StreamResult::error(MZError::Buf) } else { deflate(&mut twin, &plain, &mut tout, MZFlush::Finish) };
    let want_rc = match r.status {
        Ok(MZStatus::StreamEnd) => 0,
        Ok(MZStatus::Ok) => MZError::Buf as c_int,
        other => mz_code(&other),
    };
    let what = format!("{} n {} level {} dest_len {}", if use2 { "mz_compress2" } else { "mz_compress" }, n, lvl, cap);
    if rc != want_rc || (rc == 0 && (dl as usize != r.bytes_written || dst.slice()[..dl as usize] != tout[..r.bytes_written])) {
        rep.violation("C17:oneshot-compress-differs-from-rust", format!("{}: C rc {} dest_len {}; Rust deflate(Finish) {:?} written {}", what, rc, dl, r.status, r.bytes_written), det(&what, vec![("plain_hex", Json::s(&hex_short(&plain, 100)))]));
        return;
    }
    if rc == 0 {
        // uncompress with exact / short / roomy destination
        let comp = dst.slice()[..dl as usize].to_vec();
        let ucap = match rng.below(3) {
            0 => n,
            1 => rng.below(n + 1),
            _ => n + 1 + rng.below(50),
        };
        let mut csrc = Buf::from(instr, &comp, rng.bool());
        let mut udst = Buf::new(instr, ucap, rng.bool());
        let mut ul = ucap as libc::c_ulong;
        let rc2 = unsafe { mz_uncompress(udst.ptr(), &mut ul, csrc.ptr(), comp.len() as _) };
        rep.eval();
        rep.count("oneshot_uncompress_calls");
        let ok = if ucap >= n { rc2 == 0 && ul as usize == n && udst.slice()[..n] == plain[..] } else { rc2 < 0 };
        // ucap == 0 with n == 0: Err(Buf) "output is empty" is the Rust wrapper's documented answer
        let ok = ok || (ucap == 0 && n == 0 && rc2 < 0);
        if !ok {
            rep.violation("C17:mz_uncompress-wrong", format!("mz_uncompress of {} -> {} bytes into {} bytes: rc {} dest_len {}", comp.len(), n, ucap, rc2, ul), det(&what, vec![]));
        }
    }
    if n > 3 {
        let mut h = Hasher::new();
        h.bytes(&plain).u64(level as u64).u64(cap as u64);
        rep.nontrivial(h.finish());
    }
}

// ------------------------------------------------------------------ tdefl_*

struct Collect {
    out: Vec<u8>,
    refuse_after: usize,
    calls: usize,
}

unsafe extern "C" fn put_buf(buf: *const c_void, len: c_int, user: *mut c_void) -> i32 {
    let c = &mut *(user as *mut Collect);
    c.calls += 1;
    if c.calls > c.refuse_after {
        return 0;
    }
    c.out.extend_from_slice(std::slice::from_raw_parts(buf as *const u8, len as usize));
    1
}

fn sc_tdefl(rep: &mut Report, rng: &mut Rng, instr: Instr, max: usize) {
    let level = rng.below(11) as i32;
    let flags = create_comp_flags_from_zip_params(level, if rng.bool() { 15 } else { -15 }, rng.below(5) as i32) | if rng.bool() { deflate_flags::TDEFL_COMPUTE_ADLER32 } else { 0 };
    let n = rng.size_biased(max);
    let cls = rng.below(data::NUM_CLASSES);
    let plain = data::gen(rng, cls, n);
    let what = format!("tdefl flags {:#x} n {}", flags, n);
    unsafe {
        let c = tdefl_allocate();
        let callback_mode = rng.chance(1, 3);
        // sometimes the object already went through another life (other output mode, other
        // flags, stream abandoned anywhere): tdefl_init must make it behave like a new one
        let mut prior = Collect { out: Vec::new(), refuse_after: usize::MAX, calls: 0 };
        if rng.chance(1, 2) {
            let prior_cb = rng.bool();
            let pf = create_comp_flags_from_zip_params(rng.below(11) as i32, if rng.bool() { 15 } else { -15 }, rng.below(5) as i32);
            tdefl_init(c.as_mut(), if prior_cb { Some(put_buf) } else { None }, &mut prior as *mut Collect as *mut c_void, pf as c_int);
            let junk = rng.bytes(rng.clone().below(5000));
            let mut isz = junk.len();
            if prior_cb {
                tdefl_compress(c.as_mut(), junk.as_ptr() as *const c_void, Some(&mut isz), std::ptr::null_mut(), None, if rng.bool() { tdefl_flush::TDEFL_NO_FLUSH } else { tdefl_flush::TDEFL_FINISH });
            } else {
                let mut o = vec![0u8; 1 + rng.below(300)];
                let mut osz = o.len();
                tdefl_compress(c.as_mut(), junk.as_ptr() as *const c_void, Some(&mut isz), o.as_mut_ptr() as *mut c_void, Some(&mut osz), if rng.bool() { tdefl_flush::TDEFL_NO_FLUSH } else { tdefl_flush::TDEFL_FINISH });
            }
            rep.count("tdefl_reinit_after_prior_life");
        }
        let mut coll = Collect { out: Vec::new(), refuse_after: if rng.chance(1, 5) { rng.below(3) } else { usize::MAX }, calls: 0 };
        let st = tdefl_init(c.as_mut(), if callback_mode { Some(put_buf) } else { None }, &mut coll as *mut Collect as *mut c_void, flags as c_int);
        if (st as i32) != 0 {
            rep.violation("C17:tdefl_init-failed", "not OKAY".into(), det(&what, vec![]));
            tdefl_deallocate(c);
            return;
        }
        let mut twin = CompressorOxide::new(flags);
        let mut twin_out: Vec<u8> = Vec::new();
        let mut twin_calls = 0usize;
        let refuse_after = coll.refuse_after;
        let mut input = Buf::from(instr, &plain, rng.bool());
        let mut pos = 0usize;
        let mut calls = 0;
        loop {
            calls += 1;
            if calls > n * 2 + 10_000 {
                break;
            }
            let chunk = rng.size_biased(n - pos + 1).min(n - pos);
            let fin = pos + chunk == n;
            let (fl_c, fl_r) = if fin {
                (tdefl_flush::TDEFL_FINISH, TDEFLFlush::Finish)
            } else {
                match rng.below(4) {
                    0 => (tdefl_flush::TDEFL_SYNC_FLUSH, TDEFLFlush::Sync),
                    1 => (tdefl_flush::TDEFL_FULL_FLUSH, TDEFLFlush::Full),
                    _ => (tdefl_flush::TDEFL_NO_FLUSH, TDEFLFlush::None),
                }
            };
            let chunk = if fin { n - pos } else { chunk };
            let mut in_size = chunk;
            rep.eval();
            rep.count("tdefl_compress_calls");
            if callback_mode {
                let st = tdefl_compress(c.as_mut(), input.ptr().add(pos) as *const c_void, Some(&mut in_size), std::ptr::null_mut(), None, fl_c);
                let r = compress_to_output(&mut twin, &plain[pos..pos + chunk], fl_r, |b: &[u8]| {
                    twin_calls += 1;
                    if twin_calls > refuse_after {
                        return false;
                    }
                    twin_out.extend_from_slice(b);
                    true
                });
                let stc = st as i32;
                if stc != r.0 as i32 || in_size != r.1 || coll.out != twin_out || tdefl_get_adler32(c.as_mut()) != twin.adler32() || tdefl_get_prev_return_status(c.as_mut()) as i32 != twin.prev_return_status() as i32 {
                    rep.violation("C17:tdefl_compress-differs-from-rust:callback", format!("call {}: C status {} in_size {} out {} ; Rust {:?} consumed {} out {}", calls, stc, in_size, coll.out.len(), r.0, r.1, twin_out.len()), det(&what, vec![]));
                    break;
                }
                pos += in_size;
                if r.0 != TDEFLStatus::Okay {
                    break;
                }
            } else {
                let osz = *rng.pick(&[0usize, 1, 7, 300, 90_000, 200_000]);
                let mut out = Buf::new(instr, osz, rng.bool());
                let mut out_size = osz;
                let st = tdefl_compress(c.as_mut(), if chunk == 0 && rng.bool() { std::ptr::null() } else { input.ptr().add(pos) as *const c_void }, Some(&mut in_size), if osz == 0 { std::ptr::null_mut() } else { out.ptr() as *mut c_void }, Some(&mut out_size), fl_c);
                let mut tout = vec![0u8; osz];
                let r = compress(&mut twin, &plain[pos..pos + chunk], &mut tout, fl_r);
                let stc = st as i32;
                if stc != r.0 as i32 || in_size != r.1 || out_size != r.2 || out.slice()[..out_size.min(osz)] != tout[..r.2.min(osz)] || tdefl_get_adler32(c.as_mut()) != twin.adler32() {
                    rep.violation("C17:tdefl_compress-differs-from-rust:buffer", format!("call {} (out {}): C status {} in {} out {}; Rust {:?} {} {}", calls, osz, stc, in_size, out_size, r.0, r.1, r.2), det(&what, vec![]));
                    break;
                }
                pos += in_size;
                if r.0 != TDEFLStatus::Okay {
                    break;
                }
            }
        }
        tdefl_deallocate(c);
        let _ = &mut input;
    }
    // whole-buffer helpers
    unsafe {
        let mut src = Buf::from(instr, &plain, rng.bool());
        let expect = {
            let mut t = CompressorOxide::new(flags);
            let mut v = Vec::new();
            let r = compress_to_output(&mut t, &plain, TDEFLFlush::Finish, |b: &[u8]| {
                v.extend_from_slice(b);
                true
            });
            if r.0 == TDEFLStatus::Done {
                Some(v)
            } else {
                None
            }
        };
        rep.eval();
        rep.count("tdefl_mem_helper_calls");
        let mut out_len = 0usize;
        let p = tdefl_compress_mem_to_heap(src.ptr() as *const c_void, n, &mut out_len, flags as c_int);
        let got = if p.is_null() { None } else { Some(std::slice::from_raw_parts(p as *const u8, out_len).to_vec()) };
        if got != expect {
            rep.violation("C17:tdefl_compress_mem_to_heap-differs", format!("heap result {:?} bytes vs Rust {:?} bytes", got.as_ref().map(|v| v.len()), expect.as_ref().map(|v| v.len())), det(&what, vec![]));
        }
        if !p.is_null() {
            miniz_def_free_func(std::ptr::null_mut(), p);
        }
        if let Some(e) = &expect {
            // fixed-capacity putter: exactly full / one short / roomy
            for cap in [e.len(), e.len().saturating_sub(1), e.len() + 17] {
                let mut dst = Buf::new(instr, cap, rng.bool());
                let w = tdefl_compress_mem_to_mem(if cap == 0 { std::ptr::NonNull::<u8>::dangling().as_ptr() as *mut c_void } else { dst.ptr() as *mut c_void }, cap, src.ptr() as *const c_void, n, flags as c_int);
                rep.eval();
                let ok = if cap >= e.len() { w == e.len() && dst.slice()[..w] == e[..] } else { w == 0 };
                if !ok {
                    rep.violation("C17:tdefl_compress_mem_to_mem-wrong", format!("capacity {} for {} bytes of output: returned {}", cap, e.len(), w), det(&what, vec![]));
                }
            }
            let mut coll = Collect { out: Vec::new(), refuse_after: usize::MAX, calls: 0 };
            let ok = tdefl_compress_mem_to_output(src.ptr() as *const c_void, n, Some(put_buf), &mut coll as *mut Collect as *mut c_void, flags as c_int);
            rep.eval();
            if ok == 0 || coll.out != *e {
                rep.violation("C17:tdefl_compress_mem_to_output-differs", format!("returned {} with {} bytes vs {}", ok, coll.out.len(), e.len()), det(&what, vec![]));
            }
        }
    }
    if n > 3 {
        let mut h = Hasher::new();
        h.bytes(&plain).u64(flags as u64);
        rep.nontrivial(h.finish());
    }
}

// ------------------------------------------------------------------ tinfl_*

fn sc_tinfl(rep: &mut Report, rng: &mut Rng, instr: Instr, max: usize, skip_heap: bool) {
    let zl = rng.bool();
    let mut o = grammar::GenOpts::medium(zl);
    o.max_tokens = max.min(3000);
    let g = grammar::random_stream(rng, &o);
    let bytes = match rng.below(5) {
        0 => crate::gen::faults::mutate(rng, &g.bytes, &[]).0,
        1 => g.bytes[..rng.below(g.bytes.len() + 1)].to_vec(),
        _ => g.bytes.clone(),
    };
    let what = format!("tinfl zlib {} stream {} bytes", zl, bytes.len());
    let base = if zl { 1u32 } else { 0 } | if rng.chance(1, 4) { 8 } else { 0 };
    unsafe {
        // tinfl_decompress with a flat or a ring buffer, against decompress()
        let r = tinfl_decompressor_alloc();
        tinfl_init(r);
        if rng.chance(1, 2) {
            // a prior, abandoned decode on the same object, then tinfl_init again
            let junk = rng.bytes(1 + rng.clone().below(200));
            let mut tmp = vec![0u8; 32768];
            let mut isz = junk.len();
            let mut osz = tmp.len();
            let tp = tmp.as_mut_ptr();
            tinfl_decompress(r, junk.as_ptr(), &mut isz, tp, tp, &mut osz, rng.below(2) as u32 | 2);
            tinfl_init(r);
            rep.count("tinfl_reinit_after_prior_life");
        }
        let mut twin = DecompressorOxide::new();
        let ring = rng.bool();
        let size = if ring { 32768 } else { g.plain.len() + 1 + rng.below(3) };
        let mut obuf = Buf::new(instr, size, rng.bool());
        let mut tbuf = vec![0u8; size];
        let mut input = Buf::from(instr, &bytes, rng.bool());
        let mut pos = 0usize;
        let mut opos = 0usize;
        let mut calls = 0;
        loop {
            calls += 1;
            if calls > bytes.len() * 2 + g.plain.len() + 100 {
                break;
            }
            let chunk = (1 + rng.size_biased(bytes.len() + 1)).min(bytes.len() - pos);
            let more = pos + chunk < bytes.len();
            let flags = base | if ring { 0 } else { 4 } | if more { 2 } else { 0 };
            let mut in_size = chunk;
            let mut out_size = size - opos;
            let obase = obuf.ptr();
            let st = tinfl_decompress(r, input.ptr().add(pos), &mut in_size, obase, obase.add(opos), &mut out_size, flags);
            rep.eval();
            rep.count("tinfl_decompress_calls");
            let tr = decompress(&mut twin, &bytes[pos..pos + chunk], &mut tbuf, opos, flags);
            if st != tr.0 as i32 || in_size != tr.1 || out_size != tr.2 || obuf.slice() != &tbuf[..] || tinfl_get_adler32(r) as u32 != twin.adler32().unwrap_or(0) {
                rep.violation("C17:tinfl_decompress-differs-from-rust", format!("call {}: C ({}, {}, {}) vs Rust ({}, {}, {})", calls, st, in_size, out_size, tr.0 as i32, tr.1, tr.2), det(&what, vec![("stream_hex", Json::s(&hex_short(&bytes, 200)))]));
                break;
            }
            pos += in_size;
            opos += out_size;
            if ring && opos >= size {
                opos = 0;
            }
            if st <= 0 || (st == 2 && !ring && opos >= size) || (in_size == 0 && out_size == 0 && !more) {
                break;
            }
        }
        tinfl_decompressor_free(r);
        let _ = &mut input;
    }
    // whole-buffer helpers
    unsafe {
        let mut src = Buf::from(instr, &bytes, rng.bool());
        let rust = {
            let mut d = DecompressorOxide::new();
            let mut out = vec![0u8; g.plain.len() + 700];
            let r = decompress(&mut d, &bytes, &mut out, 0, (base & !2) | 4);
            if r.0 as i32 == 0 {
                out.truncate(r.2);
                Some(out)
            } else {
                None
            }
        };
        for cap in [g.plain.len(), g.plain.len().saturating_sub(1), g.plain.len() + 700] {
            let mut dst = Buf::new(instr, cap, rng.bool());
            // a zero-capacity destination still needs a valid (non-null) pointer
            let dptr = if cap == 0 { std::ptr::NonNull::<u8>::dangling().as_ptr() } else { dst.ptr() };
            let sptr = if bytes.is_empty() { std::ptr::NonNull::<u8>::dangling().as_ptr() } else { src.ptr() };
            let w = tinfl_decompress_mem_to_mem(dptr as *mut c_void, cap, sptr as *const c_void, bytes.len(), base as c_int);
            rep.eval();
            rep.count("tinfl_mem_helper_calls");
            let want = match &rust {
                Some(o) if o.len() <= cap => o.len(),
                _ => usize::MAX,
            };
            if w != want || (w != usize::MAX && dst.slice()[..w] != rust.as_ref().unwrap()[..]) {
                rep.violation("C17:tinfl_decompress_mem_to_mem-differs", format!("capacity {}: returned {} vs expected {}", cap, w as isize, want as isize), det(&what, vec![("stream_hex", Json::s(&hex_short(&bytes, 200)))]));
            }
        }
        if !skip_heap {
            let mut out_len = 0usize;
            let sptr = if bytes.is_empty() { std::ptr::NonNull::<u8>::dangling().as_ptr() } else { src.ptr() };
            let p = tinfl_decompress_mem_to_heap(sptr as *const c_void, bytes.len(), &mut out_len, base as c_int);
            rep.eval();
            let got = if p.is_null() { None } else { Some(std::slice::from_raw_parts(p as *const u8, out_len).to_vec()) };
            // the Rust counterpart of the growing-buffer helper is the vector function
            let vecres = if zl { miniz_oxide::inflate::decompress_to_vec_zlib_with_limit(&bytes, 256 << 20) } else { miniz_oxide::inflate::decompress_to_vec_with_limit(&bytes, 256 << 20) };
            let want = vecres.ok();
            if got != want {
                rep.violation("C17:tinfl_decompress_mem_to_heap-differs", format!("heap result {:?} bytes vs decompress_to_vec {:?}", got.as_ref().map(|v| v.len()), want.as_ref().map(|v| v.len())), det(&what, vec![("stream_hex", Json::s(&hex_short(&bytes, 200)))]));
            }
            if !p.is_null() {
                miniz_def_free_func(std::ptr::null_mut(), p);
            }
        }
    }
    let mut h = Hasher::new();
    h.bytes(&bytes).u64(base as u64);
    rep.nontrivial(h.finish());
}

// ------------------------------------------------------------------ misuse matrix

#[derive(Debug)]
enum Child {
    Ok(String),
    Exit(i32, String),
    Signal(i32, String),
}

/// Run a misuse row in a forked child (a crash is attributed to the row and does not end the
/// run). Under Miri fork is unavailable: the row runs inline.
fn in_child(f: impl FnOnce() -> Result<String, String>) -> Child {
    if cfg!(miri) {
        return match f() {
            Ok(s) => Child::Ok(s),
            Err(e) => Child::Exit(3, e),
        };
    }
    unsafe {
        let mut fds = [0i32; 2];
        if libc::pipe(fds.as_mut_ptr()) != 0 {
            return Child::Exit(99, "pipe failed".into());
        }
        let pid = libc::fork();
        if pid == 0 {
            libc::close(fds[0]);
            libc::dup2(fds[1], 2); // sanitizer / panic output goes to the parent as well
            let r = std::panic::catch_unwind(std::panic::AssertUnwindSafe(f));
            let (code, msg) = match r {
                Ok(Ok(s)) => (0, s),
                Ok(Err(e)) => (3, e),
                Err(_) => (4, "panic unwound out of the C function".to_string()),
            };
            let b = msg.as_bytes();
            libc::write(fds[1], b.as_ptr() as *const c_void, b.len());
            libc::_exit(code);
        }
        libc::close(fds[1]);
        let mut out = Vec::new();
        let mut buf = [0u8; 4096];
        loop {
            let n = libc::read(fds[0], buf.as_mut_ptr() as *mut c_void, buf.len());
            if n <= 0 {
                break;
            }
            out.extend_from_slice(&buf[..n as usize]);
            if out.len() > 20_000 {
                break;
            }
        }
        libc::close(fds[0]);
        let mut status = 0;
        libc::waitpid(pid, &mut status, 0);
        let text = String::from_utf8_lossy(&out).to_string();
        if libc::WIFSIGNALED(status) {
            Child::Signal(libc::WTERMSIG(status), text)
        } else if libc::WEXITSTATUS(status) == 0 {
            Child::Ok(text)
        } else {
            Child::Exit(libc::WEXITSTATUS(status), text)
        }
    }
}

fn expect(cond: bool, what: String) -> Result<String, String> {
    if cond {
        Ok(what)
    } else {
        Err(what)
    }
}

/// Callers may free their buffers before End; the harness does not leave stale pointers behind.
fn clear_ptrs(s: &mut mz_stream) {
    s.next_in = std::ptr::null();
    s.avail_in = 0;
    s.next_out = std::ptr::null_mut();
    s.avail_out = 0;
}

type Row = (&'static str, Box<dyn Fn() -> Result<String, String>>);

fn misuse_rows() -> Vec<Row> {
    let mut v: Vec<Row> = Vec::new();
    let data: &'static [u8] = b"misuse matrix input data, misuse matrix input data, misuse matrix";
    macro_rules! row {
        ($name:expr, $body:expr) => {
            v.push(($name, Box::new(move || unsafe { $body })));
        };
    }
    // --- NULL stream
    row!("mz_deflateInit(NULL)", expect(mz_deflateInit(std::ptr::null_mut(), 6) < 0, "error code".into()));
    row!("mz_deflateInit2(NULL)", expect(mz_deflateInit2(std::ptr::null_mut(), 6, 8, 15, 9, 0) < 0, "error code".into()));
    row!("mz_deflate(NULL)", expect(mz_deflate(std::ptr::null_mut(), 0) < 0, "error code".into()));
    row!("mz_deflateEnd(NULL)", expect(mz_deflateEnd(std::ptr::null_mut()) < 0, "error code".into()));
    row!("mz_deflateReset(NULL)", expect(mz_deflateReset(std::ptr::null_mut()) < 0, "error code".into()));
    row!("mz_inflateInit(NULL)", expect(mz_inflateInit(std::ptr::null_mut()) < 0, "error code".into()));
    row!("mz_inflateInit2(NULL)", expect(mz_inflateInit2(std::ptr::null_mut(), 15) < 0, "error code".into()));
    row!("mz_inflate(NULL)", expect(mz_inflate(std::ptr::null_mut(), 0) < 0, "error code".into()));
    row!("mz_inflateEnd(NULL)", expect(mz_inflateEnd(std::ptr::null_mut()) < 0, "error code".into()));
    // --- parameter ranges
    row!("mz_deflateInit2 level -3..=12", {
        let mut bad = Vec::new();
        for level in -3..=12 {
            let mut s = mz_stream::default();
            let rc = mz_deflateInit2(&mut s, level, 8, 15, 9, 0);
            if rc != 0 && rc >= 0 {
                bad.push((level, rc));
            }
            if rc == 0 {
                // usable: compress something
                let mut out = [0u8; 256];
                s.next_in = data.as_ptr();
                s.avail_in = data.len() as u32;
                s.next_out = out.as_mut_ptr();
                s.avail_out = 256;
                if mz_deflate(&mut s, 4) != 1 {
                    bad.push((level, -999));
                }
            }
            clear_ptrs(&mut s);
            mz_deflateEnd(&mut s);
        }
        expect(bad.is_empty(), format!("levels with odd results: {:?}", bad))
    });
    row!("mz_deflateInit2 method {0,7,8,9}", {
        let mut bad = Vec::new();
        for m in [0, 7, 8, 9] {
            let mut s = mz_stream::default();
            let rc = mz_deflateInit2(&mut s, 6, m, 15, 9, 0);
            if (m == 8) != (rc == 0) || (rc != 0 && rc >= 0) {
                bad.push((m, rc));
            }
            clear_ptrs(&mut s);
            mz_deflateEnd(&mut s);
        }
        expect(bad.is_empty(), format!("{:?}", bad))
    });
    row!("mz_deflateInit2 window_bits -16..=16", {
        let mut bad = Vec::new();
        for w in -16..=16 {
            let mut s = mz_stream::default();
            let rc = mz_deflateInit2(&mut s, 6, 8, w, 9, 0);
            if ((w == 15 || w == -15) != (rc == 0)) || (rc != 0 && rc >= 0) {
                bad.push((w, rc));
            }
            clear_ptrs(&mut s);
            mz_deflateEnd(&mut s);
        }
        expect(bad.is_empty(), format!("{:?}", bad))
    });
    row!("mz_deflateInit2 mem_level 0..=10", {
        let mut bad = Vec::new();
        for m in 0..=10 {
            let mut s = mz_stream::default();
            let rc = mz_deflateInit2(&mut s, 6, 8, 15, m, 0);
            if ((1..=9).contains(&m) != (rc == 0)) || (rc != 0 && rc >= 0) {
                bad.push((m, rc));
            }
            clear_ptrs(&mut s);
            mz_deflateEnd(&mut s);
        }
        expect(bad.is_empty(), format!("{:?}", bad))
    });
    row!("mz_deflateInit2 strategy -1..=6", {
        let mut bad = Vec::new();
        for st in -1..=6 {
            let mut s = mz_stream::default();
            let rc = mz_deflateInit2(&mut s, 6, 8, 15, 9, st);
            if rc != 0 && rc >= 0 {
                bad.push((st, rc));
            }
            clear_ptrs(&mut s);
            mz_deflateEnd(&mut s);
        }
        expect(bad.is_empty(), format!("{:?}", bad))
    });
    row!("mz_inflateInit2 window_bits -16..=16", {
        let mut bad = Vec::new();
        for w in -16..=16 {
            let mut s = mz_stream::default();
            let rc = mz_inflateInit2(&mut s, w);
            if ((w == 15 || w == -15) != (rc == 0)) || (rc != 0 && rc >= 0) {
                bad.push((w, rc));
            }
            clear_ptrs(&mut s);
            mz_inflateEnd(&mut s);
        }
        expect(bad.is_empty(), format!("{:?}", bad))
    });
    row!("mz_deflate flush -2..=7", {
        let mut bad = Vec::new();
        for f in -2..=7 {
            let mut s = mz_stream::default();
            mz_deflateInit(&mut s, 6);
            let mut out = [0u8; 256];
            s.next_in = data.as_ptr();
            s.avail_in = data.len() as u32;
            s.next_out = out.as_mut_ptr();
            s.avail_out = 256;
            let rc = mz_deflate(&mut s, f);
            let valid = (0..=4).contains(&f);
            if valid != (rc >= 0) {
                bad.push((f, rc));
            }
            clear_ptrs(&mut s);
            mz_deflateEnd(&mut s);
        }
        expect(bad.is_empty(), format!("{:?}", bad))
    });
    row!("mz_inflate flush -2..=7", {
        let mut bad = Vec::new();
        for f in -2..=7 {
            let mut s = mz_stream::default();
            mz_inflateInit(&mut s);
            let mut out = [0u8; 256];
            let z = [0x78u8, 0x9c, 0x03, 0x00, 0x00, 0x00, 0x00, 0x01];
            s.next_in = z.as_ptr();
            s.avail_in = z.len() as u32;
            s.next_out = out.as_mut_ptr();
            s.avail_out = 256;
            let rc = mz_inflate(&mut s, f);
            // 3 (full flush) is a documented stream error on the inflate side
            let valid = matches!(f, 0 | 1 | 2 | 4);
            if valid != (rc >= 0) {
                bad.push((f, rc));
            }
            clear_ptrs(&mut s);
            mz_inflateEnd(&mut s);
        }
        expect(bad.is_empty(), format!("{:?}", bad))
    });
    // --- NULL buffers in a stream
    for (name, null_in, null_out, ain, aout) in [
        ("mz_deflate next_in NULL avail_in 0", true, false, 0u32, 64u32),
        ("mz_deflate next_in NULL avail_in 10", true, false, 10, 64),
        ("mz_deflate next_out NULL avail_out 0", false, true, 10, 0),
        ("mz_deflate next_out NULL avail_out 10", false, true, 10, 10),
        ("mz_deflate both NULL", true, true, 5, 5),
    ] {
        v.push((name, Box::new(move || unsafe {
            let mut s = mz_stream::default();
            mz_deflateInit(&mut s, 6);
            let mut out = [0u8; 64];
            s.next_in = if null_in { std::ptr::null() } else { data.as_ptr() };
            s.avail_in = ain;
            s.next_out = if null_out { std::ptr::null_mut() } else { out.as_mut_ptr() };
            s.avail_out = aout;
            let rc = mz_deflate(&mut s, 4);
            clear_ptrs(&mut s);
            mz_deflateEnd(&mut s);
            expect(rc < 0, format!("rc {}", rc))
        })));
    }
    for (name, null_in, null_out, ain, aout) in [
        ("mz_inflate next_in NULL avail_in 0", true, false, 0u32, 64u32),
        ("mz_inflate next_in NULL avail_in 10", true, false, 10, 64),
        ("mz_inflate next_out NULL avail_out 0", false, true, 8, 0),
        ("mz_inflate next_out NULL avail_out 10", false, true, 8, 10),
    ] {
        v.push((name, Box::new(move || unsafe {
            let mut s = mz_stream::default();
            mz_inflateInit(&mut s);
            let mut out = [0u8; 64];
            let z = [0x78u8, 0x9c, 0x03, 0x00, 0x00, 0x00, 0x00, 0x01];
            s.next_in = if null_in { std::ptr::null() } else { z.as_ptr() };
            s.avail_in = ain;
            s.next_out = if null_out { std::ptr::null_mut() } else { out.as_mut_ptr() };
            s.avail_out = aout;
            let rc = mz_inflate(&mut s, 0);
            clear_ptrs(&mut s);
            mz_inflateEnd(&mut s);
            expect(rc < 0, format!("rc {}", rc))
        })));
    }
    // --- stream of the other kind, uninitialised stream, custom allocators, End/Reset twice
    row!("mz_inflate on a deflate stream", {
        let mut s = mz_stream::default();
        mz_deflateInit(&mut s, 6);
        let mut out = [0u8; 64];
        s.next_in = data.as_ptr();
        s.avail_in = 10;
        s.next_out = out.as_mut_ptr();
        s.avail_out = 64;
        let rc = mz_inflate(&mut s, 0);
        let rc2 = mz_inflateEnd(&mut s);
        let rc3 = mz_deflate(&mut s, 4); // the deflate stream must still work
        clear_ptrs(&mut s);
            mz_deflateEnd(&mut s);
        expect(rc < 0 && rc2 < 0 && rc3 == 1, format!("mz_inflate {} mz_inflateEnd {} then mz_deflate {}", rc, rc2, rc3))
    });
    row!("mz_deflate on an inflate stream", {
        let mut s = mz_stream::default();
        mz_inflateInit(&mut s);
        let mut out = [0u8; 64];
        s.next_in = data.as_ptr();
        s.avail_in = 10;
        s.next_out = out.as_mut_ptr();
        s.avail_out = 64;
        let rc = mz_deflate(&mut s, 0);
        let rc2 = mz_deflateReset(&mut s);
        let rc3 = mz_deflateEnd(&mut s);
        clear_ptrs(&mut s);
            mz_inflateEnd(&mut s);
        expect(rc < 0 && rc2 < 0 && rc3 < 0, format!("{} {} {}", rc, rc2, rc3))
    });
    row!("calls on a zeroed, never initialised stream", {
        let mut s = mz_stream::default();
        let mut out = [0u8; 64];
        s.next_in = data.as_ptr();
        s.avail_in = 10;
        s.next_out = out.as_mut_ptr();
        s.avail_out = 64;
        let a = mz_deflate(&mut s, 0);
        let b = mz_inflate(&mut s, 0);
        let c = mz_deflateReset(&mut s);
        expect(a < 0 && b < 0 && c < 0, format!("{} {} {}", a, b, c))
    });
    row!("stream with zalloc/zfree set", {
        unsafe extern "C" fn za(_o: *mut c_void, items: usize, size: usize) -> *mut c_void {
            libc::malloc(items * size)
        }
        unsafe extern "C" fn zf(_o: *mut c_void, p: *mut c_void) {
            libc::free(p)
        }
        let mut s = mz_stream::default();
        s.zalloc = Some(za);
        s.zfree = Some(zf);
        let a = mz_deflateInit(&mut s, 6);
        let mut s2 = mz_stream::default();
        s2.zalloc = Some(za);
        let b = mz_inflateInit(&mut s2);
        expect(a < 0 && b < 0, format!("custom allocators are unsupported and must be refused: deflateInit {} inflateInit {}", a, b))
    });
    row!("mz_deflateEnd / mz_inflateEnd / mz_deflateReset twice", {
        let mut s = mz_stream::default();
        mz_deflateInit(&mut s, 6);
        let r1 = mz_deflateReset(&mut s);
        let r2 = mz_deflateReset(&mut s);
        let e1 = mz_deflateEnd(&mut s);
        let e2 = mz_deflateEnd(&mut s);
        let r3 = mz_deflateReset(&mut s);
        let mut t = mz_stream::default();
        mz_inflateInit(&mut t);
        let f1 = mz_inflateEnd(&mut t);
        let f2 = mz_inflateEnd(&mut t);
        expect(r1 == 0 && r2 == 0 && e1 == 0 && e2 <= 0 && r3 < 0 && f1 == 0 && f2 <= 0, format!("reset {} {} end {} {} reset-after-end {} inflateEnd {} {}", r1, r2, e1, e2, r3, f1, f2))
    });
    // --- one-shot helpers
    row!("mz_compress2 NULL dest_len", {
        let mut d = [0u8; 64];
        expect(mz_compress2(d.as_mut_ptr(), std::ptr::null_mut(), data.as_ptr(), 10, 6) < 0, "error".into())
    });
    row!("mz_compress2 NULL dest", {
        let mut l: libc::c_ulong = 64;
        expect(mz_compress2(std::ptr::null_mut(), &mut l, data.as_ptr(), 10, 6) < 0, "error".into())
    });
    row!("mz_compress2 NULL source", {
        let mut d = [0u8; 64];
        let mut l: libc::c_ulong = 64;
        let a = mz_compress2(d.as_mut_ptr(), &mut l, std::ptr::null(), 10, 6);
        expect(a < 0, format!("rc {}", a))
    });
    row!("mz_uncompress NULL dest_len / dest / source", {
        let mut d = [0u8; 64];
        let mut l: libc::c_ulong = 64;
        let a = mz_uncompress(d.as_mut_ptr(), std::ptr::null_mut(), data.as_ptr(), 10);
        let b = mz_uncompress(std::ptr::null_mut(), &mut l, data.as_ptr(), 10);
        let c = mz_uncompress(d.as_mut_ptr(), &mut l, std::ptr::null(), 10);
        expect(a < 0 && b < 0 && c < 0, format!("{} {} {}", a, b, c))
    });
    row!("mz_adler32 / mz_crc32 NULL", expect(mz_adler32(5, std::ptr::null(), 0) == 1 && mz_crc32(5, std::ptr::null(), 0) == 0, "initial values".into()));
    // --- tdefl
    row!("tdefl_compress NULL compressor", {
        let mut a = 10usize;
        let mut b = 10usize;
        let mut o = [0u8; 16];
        let st = tdefl_compress(None, data.as_ptr() as *const c_void, Some(&mut a), o.as_mut_ptr() as *mut c_void, Some(&mut b), tdefl_flush::TDEFL_FINISH);
        expect((st as i32) == -2 && a == 0 && b == 0, format!("sizes {} {}", a, b))
    });
    row!("tdefl_compress on an allocated but uninitialised compressor", {
        let c = tdefl_allocate();
        let mut a = 10usize;
        let mut b = 16usize;
        let mut o = [0u8; 16];
        let st = tdefl_compress(c.as_mut(), data.as_ptr() as *const c_void, Some(&mut a), o.as_mut_ptr() as *mut c_void, Some(&mut b), tdefl_flush::TDEFL_FINISH);
        let ps = tdefl_get_prev_return_status(c.as_mut());
        let ad = tdefl_get_adler32(c.as_mut());
        tdefl_deallocate(c);
        expect((st as i32) == -2, format!("prev status {} adler {}", ps as i32, ad))
    });
    row!("tdefl_compress NULL in_buf with size > 0", {
        let c = tdefl_allocate();
        tdefl_init(c.as_mut(), None, std::ptr::null_mut(), 0x1080);
        let mut a = 10usize;
        let mut b = 16usize;
        let mut o = [0u8; 16];
        let st = tdefl_compress(c.as_mut(), std::ptr::null(), Some(&mut a), o.as_mut_ptr() as *mut c_void, Some(&mut b), tdefl_flush::TDEFL_NO_FLUSH);
        tdefl_deallocate(c);
        expect((st as i32) == -2, "BAD_PARAM".into())
    });
    row!("tdefl_compress NULL out_buf with size > 0", {
        let c = tdefl_allocate();
        tdefl_init(c.as_mut(), None, std::ptr::null_mut(), 0x1080);
        let mut a = 10usize;
        let mut b = 16usize;
        let st = tdefl_compress(c.as_mut(), data.as_ptr() as *const c_void, Some(&mut a), std::ptr::null_mut(), Some(&mut b), tdefl_flush::TDEFL_NO_FLUSH);
        tdefl_deallocate(c);
        expect((st as i32) == -2, "BAD_PARAM".into())
    });
    row!("tdefl_compress callback plus output buffer", {
        let mut coll = Collect { out: Vec::new(), refuse_after: usize::MAX, calls: 0 };
        let c = tdefl_allocate();
        tdefl_init(c.as_mut(), Some(put_buf), &mut coll as *mut Collect as *mut c_void, 0x1080);
        let mut a = 10usize;
        let mut b = 16usize;
        let mut o = [0u8; 16];
        let st = tdefl_compress(c.as_mut(), data.as_ptr() as *const c_void, Some(&mut a), o.as_mut_ptr() as *mut c_void, Some(&mut b), tdefl_flush::TDEFL_NO_FLUSH);
        tdefl_deallocate(c);
        expect((st as i32) == -2, "BAD_PARAM".into())
    });
    row!("tdefl_compress NULL size pointers", {
        let c = tdefl_allocate();
        tdefl_init(c.as_mut(), None, std::ptr::null_mut(), 0x1080);
        let mut o = [0u8; 16];
        let st = tdefl_compress(c.as_mut(), data.as_ptr() as *const c_void, None, o.as_mut_ptr() as *mut c_void, None, tdefl_flush::TDEFL_FINISH);
        tdefl_deallocate(c);
        let st = st as i32;
        expect(st >= -2, format!("status {}", st))
    });
    row!("tdefl_init / get_* / deallocate with NULL", {
        let a = tdefl_init(None, None, std::ptr::null_mut(), 0);
        let b = tdefl_get_prev_return_status(None);
        let c = tdefl_get_adler32(None);
        tdefl_deallocate(std::ptr::null_mut());
        expect((a as i32) == -2 && c == 1, format!("prev status {}", b as i32))
    });
    row!("tdefl_compress_mem_to_heap NULL out_len", expect(tdefl_compress_mem_to_heap(data.as_ptr() as *const c_void, 10, std::ptr::null_mut(), 0x1080).is_null(), "NULL".into()));
    row!("tdefl_compress_mem_to_mem NULL out_buf", expect(tdefl_compress_mem_to_mem(std::ptr::null_mut(), 64, data.as_ptr() as *const c_void, 10, 0x1080) == 0, "0".into()));
    row!("tdefl_compress_mem_to_mem NULL source, length 0", {
        let mut o = [0u8; 64];
        let w = tdefl_compress_mem_to_mem(o.as_mut_ptr() as *mut c_void, 64, std::ptr::null(), 0, 0x1080);
        expect(w > 0 && w <= 64, format!("wrote {}", w))
    });
    row!("tdefl_compress_mem_to_output NULL callback", expect(tdefl_compress_mem_to_output(data.as_ptr() as *const c_void, 10, None, std::ptr::null_mut(), 0x1080) == 0, "0".into()));
    row!("tdefl_compress_mem_to_heap NULL source, length 0", {
        let mut l = 0usize;
        let p = tdefl_compress_mem_to_heap(std::ptr::null(), 0, &mut l, 0x1080);
        let ok = !p.is_null() && l > 0;
        if !p.is_null() {
            miniz_def_free_func(std::ptr::null_mut(), p);
        }
        expect(ok, format!("len {}", l))
    });
    // --- tinfl with NULL buffers of length 0
    row!("tinfl_decompress_mem_to_mem NULL source, length 0", {
        let mut o = [0u8; 64];
        let w = tinfl_decompress_mem_to_mem(o.as_mut_ptr() as *mut c_void, 64, std::ptr::null(), 0, 0);
        expect(w == usize::MAX, format!("returned {}", w as isize))
    });
    row!("tinfl_decompress_mem_to_mem NULL destination, length 0", {
        let z = [0x03u8, 0x00];
        let w = tinfl_decompress_mem_to_mem(std::ptr::null_mut(), 0, z.as_ptr() as *const c_void, 2, 0);
        expect(w == 0 || w == usize::MAX, format!("returned {}", w as isize))
    });
    row!("tinfl_decompress_mem_to_heap NULL source, length 0", {
        let mut l = 7usize;
        let p = tinfl_decompress_mem_to_heap(std::ptr::null(), 0, &mut l, 0);
        let ok = p.is_null() && l == 0;
        if !p.is_null() {
            miniz_def_free_func(std::ptr::null_mut(), p);
        }
        expect(ok, format!("ptr null {} len {}", p.is_null(), l))
    });
    row!("tinfl_decompress NULL input, size 0", {
        let r = tinfl_decompressor_alloc();
        tinfl_init(r);
        let mut o = [0u8; 64];
        let mut isz = 0usize;
        let mut osz = 64usize;
        let op = o.as_mut_ptr();
        let st = tinfl_decompress(r, std::ptr::null(), &mut isz, op, op, &mut osz, 4 | 2);
        tinfl_decompressor_free(r);
        expect(st == 1 && isz == 0 && osz == 0, format!("status {} ({}, {})", st, isz, osz))
    });
    row!("tinfl_decompress NULL output, size 0", {
        let r = tinfl_decompressor_alloc();
        tinfl_init(r);
        let z = [0x03u8, 0x00];
        let mut isz = 2usize;
        let mut osz = 0usize;
        let st = tinfl_decompress(r, z.as_ptr(), &mut isz, std::ptr::null_mut(), std::ptr::null_mut(), &mut osz, 4);
        tinfl_decompressor_free(r);
        expect(st == 0 && osz == 0, format!("status {} ({}, {})", st, isz, osz))
    });
    row!("tinfl_decompressor_free(NULL)", {
        tinfl_decompressor_free(std::ptr::null_mut());
        Ok("no-op".into())
    });
    v
}

fn misuse(rep: &mut Report, idx: usize) {
    let rows = misuse_rows();
    if idx >= rows.len() {
        return;
    }
    let (name, f) = &rows[idx];
    rep.eval();
    rep.count("misuse_rows_run");
    rep.set_insert("misuse_rows", name);
    let res = in_child(|| f());
    match res {
        Child::Ok(_) => {
            let mut h = Hasher::new();
            h.bytes(name.as_bytes());
            rep.nontrivial(h.finish());
        }
        Child::Exit(code, text) => {
            let kind = if code == 4 { "unwound" } else { "unexpected-result" };
            rep.violation(&format!("C17:misuse:{}:{}", kind, name), format!("misuse row '{}': {} — {}", name, if code == 4 { "a panic unwound across the C boundary" } else { "did not return the expected error code / benign value" }, text.chars().take(600).collect::<String>()), det(name, vec![]));
        }
        Child::Signal(sig, text) => {
            rep.violation(&format!("C17:misuse:crash:{}", name), format!("misuse row '{}' killed the process with signal {}: {}", name, sig, text.chars().rev().take(900).collect::<String>().chars().rev().collect::<String>()), det(name, vec![("signal", Json::Int(sig as i64))]));
        }
    }
}

pub fn n_misuse_rows() -> usize {
    misuse_rows().len()
}

pub fn run(ctx: &Ctx, rep: &mut Report) {
    let instr = if ctx.mode == "native" && !cfg!(miri) { Instr::Guard } else { Instr::Heap };
    let tiny = ctx.tier == crate::ctx::Tier::Tiny;
    let max = if tiny { 600 } else if ctx.mode == "asan" { 40_000 } else { 120_000 };
    let n_rows = n_misuse_rows() as u64;
    let per = if tiny { 6 } else { ctx.n(400, 12_000) };
    let kinds = 5u64;
    rep.set_insert("instrument", &format!("{} ({})", ctx.mode, if instr == Instr::Guard { "guard pages" } else { "exact-size heap buffers" }));
    for k in ctx.cases(n_rows + per * kinds) {
        rep.cur_case = k;
        crate::ctx::begin_case(k);
        if k < n_rows {
            misuse(rep, k as usize);
            continue;
        }
        let kk = k - n_rows;
        let mut rng = ctx.rng("case", k);
        // a panic inside a C function would be "unwinding across the boundary": catch to attribute
        let r = catch(|| match kk % kinds {
            0 => sc_mz_deflate(rep, &mut rng, instr, max),
            1 => sc_mz_inflate(rep, &mut rng, instr, max),
            2 => sc_oneshot(rep, &mut rng, instr, max),
            3 => sc_tdefl(rep, &mut rng, instr, max),
            _ => sc_tinfl(rep, &mut rng, instr, max, cfg!(miri) || ctx.mode == "valgrind"),
        });
        if let Err(p) = r {
            rep.violation(&format!("C17:panic-across-boundary:{}", p.site_file()), format!("a panic escaped from a C-ABI function: {}", p.text), det("differential scenario", vec![("case", Json::UInt(k))]));
        }
    }
    if ctx.only_case.is_none() && !tiny {
        rep.gate("misuse_rows_run", n_rows);
    }
}
