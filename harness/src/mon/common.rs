//! Shared drivers around the decoder entry points. They only *drive and record*; verdicts are
//! taken by the per-property monitors.

use crate::ctx::{catch, Panic};
use miniz_oxide::inflate::core::inflate_flags::*;
use miniz_oxide::inflate::core::{decompress_with_limit, DecompressorOxide};
use miniz_oxide::inflate::stream::{inflate, InflateState};
use miniz_oxide::inflate::TINFLStatus;
use miniz_oxide::{DataFormat, MZError, MZFlush, MZStatus, StreamResult};

pub const F_ZLIB: u32 = TINFL_FLAG_PARSE_ZLIB_HEADER;
pub const F_MORE: u32 = TINFL_FLAG_HAS_MORE_INPUT;
pub const F_FLAT: u32 = TINFL_FLAG_USING_NON_WRAPPING_OUTPUT_BUF;
pub const F_ADLER: u32 = TINFL_FLAG_COMPUTE_ADLER32;
pub const F_IGNORE: u32 = TINFL_FLAG_IGNORE_ADLER32;

pub const STATE_NAMES: [&str; 35] = [
    "Start",
    "ReadZlibCmf",
    "ReadZlibFlg",
    "ReadBlockHeader",
    "BlockTypeNoCompression",
    "RawHeader",
    "RawMemcpy1",
    "RawMemcpy2",
    "ReadTableSizes",
    "ReadHufflenTableCodeSize",
    "ReadLitlenDistTablesCodeSize",
    "ReadExtraBitsCodeSize",
    "DecodeLitlen",
    "WriteSymbol",
    "ReadExtraBitsLitlen",
    "DecodeDistance",
    "ReadExtraBitsDistance",
    "RawReadFirstByte",
    "RawStoreFirstByte",
    "WriteLenBytesToEnd",
    "BlockDone",
    "HuffDecodeOuterLoop1",
    "HuffDecodeOuterLoop2",
    "ReadAdler32",
    "DoneForever",
    "BlockTypeUnexpected",
    "BadCodeSizeSum",
    "BadDistOrLiteralTableLength",
    "BadTotalSymbols",
    "BadZlibHeader",
    "DistanceOutOfBounds",
    "BadRawLength",
    "BadCodeSizeDistPrevLookup",
    "InvalidLitlen",
    "InvalidDist",
];

pub const FIRST_FAILURE_STATE: u8 = 25;

/// Drivers give up (reported as "stalled") once a run produced more than this many bytes: no
/// workload of this harness legitimately decodes more.
pub const OUT_CAP: usize = 48 << 20;

pub fn state_name(s: u8) -> &'static str {
    STATE_NAMES.get(s as usize).copied().unwrap_or("?")
}

pub fn st_name(s: TINFLStatus) -> &'static str {
    match s as i8 {
        -4 => "FailedCannotMakeProgress",
        -3 => "BadParam",
        -2 => "Adler32Mismatch",
        -1 => "Failed",
        0 => "Done",
        1 => "NeedsMoreInput",
        2 => "HasMoreOutput",
        3 => "BlockBoundary",
        _ => "?",
    }
}

pub fn mz_name(r: &Result<MZStatus, MZError>) -> String {
    match r {
        Ok(s) => format!("Ok({:?})", s),
        Err(e) => format!("Err({:?})", e),
    }
}

/// Split `total` into chunk lengths according to a plan.
#[derive(Clone, Debug)]
pub enum Chunking {
    OneShot,
    /// every chunk this many bytes
    Fixed(usize),
    /// explicit cut positions (sorted, within 0..=total)
    Cuts(Vec<usize>),
    /// explicit lengths (may contain zeros); remainder appended
    Lens(Vec<usize>),
}

impl Chunking {
    pub fn lens(&self, total: usize) -> Vec<usize> {
        match self {
            Chunking::OneShot => vec![total],
            Chunking::Fixed(n) => {
                let n = (*n).max(1);
                let mut v = Vec::new();
                let mut left = total;
                while left > 0 {
                    let c = n.min(left);
                    v.push(c);
                    left -= c;
                }
                if v.is_empty() {
                    v.push(0);
                }
                v
            }
            Chunking::Cuts(cuts) => {
                let mut v = Vec::new();
                let mut prev = 0;
                for &c in cuts {
                    let c = c.min(total);
                    if c >= prev {
                        v.push(c - prev);
                        prev = c;
                    }
                }
                v.push(total - prev);
                v
            }
            Chunking::Lens(l) => {
                let mut v = Vec::new();
                let mut left = total;
                for &x in l {
                    let c = x.min(left);
                    v.push(c);
                    left -= c;
                }
                if left > 0 {
                    v.push(left);
                }
                v
            }
        }
    }
    pub fn describe(&self) -> String {
        match self {
            Chunking::OneShot => "oneshot".into(),
            Chunking::Fixed(n) => format!("fixed({})", n),
            Chunking::Cuts(c) => {
                if c.len() <= 8 {
                    format!("cuts{:?}", c)
                } else {
                    format!("cuts[{} cuts]", c.len())
                }
            }
            Chunking::Lens(l) => {
                if l.len() <= 8 {
                    format!("lens{:?}", l)
                } else {
                    format!("lens[{} chunks]", l.len())
                }
            }
        }
    }
}

#[derive(Clone, Debug)]
pub struct CallRec {
    pub offered: usize,
    pub more: bool,
    pub out_pos: usize,
    pub budget: usize,
    pub status: TINFLStatus,
    pub consumed: usize,
    pub written: usize,
    pub state_after: u8,
}

#[derive(Clone, Debug)]
pub struct DecRun {
    pub out: Vec<u8>,
    pub status: TINFLStatus,
    pub consumed: usize,
    pub calls: Vec<CallRec>,
    pub panic: Option<Panic>,
    /// the driver gave up (no progress within the logical call bound)
    pub stalled: bool,
    pub final_state: u8,
    pub adler: Option<u32>,
}

impl DecRun {
    pub fn triple(&self) -> (Vec<u8>, i8, usize) {
        (self.out.clone(), self.status as i8, self.consumed)
    }
    /// last few calls, for witnesses
    pub fn tail(&self, n: usize) -> String {
        let k = self.calls.len().saturating_sub(n);
        self.calls[k..]
            .iter()
            .map(|c| {
                format!(
                    "[in={}{} pos={} bud={} -> {} c={} w={} st={}]",
                    c.offered,
                    if c.more { "+" } else { "" },
                    c.out_pos,
                    if c.budget == usize::MAX { "max".to_string() } else { c.budget.to_string() },
                    st_name(c.status),
                    c.consumed,
                    c.written,
                    state_name(c.state_after)
                )
            })
            .collect::<Vec<_>>()
            .join(" ")
    }
}

/// Buffer mode of a core-decoder run.
#[derive(Clone, Debug)]
pub enum BufMode {
    /// flat buffer of this capacity
    Flat(usize),
    /// ring of this size (power of two) with this initial fill byte pattern
    Ring(usize),
}

/// Drive the core decoder over `input` under (chunking, per-call budgets).
/// `budgets` is cycled; empty = unlimited. `ring_init`: initial ring contents (ring mode).
pub fn drive_core(
    r: &mut DecompressorOxide,
    input: &[u8],
    base_flags: u32,
    mode: &BufMode,
    chunks: &[usize],
    budgets: &[usize],
    ring_init: Option<&[u8]>,
) -> DecRun {
    drive_core_ex(r, input, base_flags, mode, chunks, budgets, ring_init, false)
}

/// As `drive_core`; with `always_more` the HAS_MORE_INPUT flag stays set on every call (the
/// caller claims more input will come), so running out of input ends in NeedsMoreInput.
#[allow(clippy::too_many_arguments)]
pub fn drive_core_ex(
    r: &mut DecompressorOxide,
    input: &[u8],
    base_flags: u32,
    mode: &BufMode,
    chunks: &[usize],
    budgets: &[usize],
    ring_init: Option<&[u8]>,
    always_more: bool,
) -> DecRun {
    let (mut buf, flat) = match mode {
        BufMode::Flat(cap) => (vec![0xA5u8; *cap], true),
        BufMode::Ring(sz) => {
            let mut b = vec![0u8; *sz];
            if let Some(init) = ring_init {
                b.copy_from_slice(init);
            }
            (b, false)
        }
    };
    let flags0 = if flat { base_flags | F_FLAT } else { base_flags & !F_FLAT };
    let mut run = DecRun {
        out: Vec::new(),
        status: TINFLStatus::NeedsMoreInput,
        consumed: 0,
        calls: Vec::new(),
        panic: None,
        stalled: false,
        final_state: 0,
        adler: None,
    };
    let mut in_pos = 0usize;
    let mut avail_end = 0usize;
    let mut ci = 0usize;
    // offer first chunk
    if ci < chunks.len() {
        avail_end += chunks[ci];
        ci += 1;
    }
    let mut out_pos = 0usize;
    let mut bi = 0usize;
    let bound = input.len() * 2 + buf.len().min(1 << 20) + chunks.len() * 2 + 64
        + if budgets.is_empty() { 0 } else { 1 << 22 };
    let mut ncalls = 0usize;
    let mut zero_progress = 0usize;
    loop {
        ncalls += 1;
        if ncalls > bound || zero_progress > budgets.len() + chunks.len() + 8 || run.out.len() > OUT_CAP {
            run.stalled = true;
            break;
        }
        let more = always_more || ci < chunks.len();
        let flags = if more { flags0 | F_MORE } else { flags0 & !F_MORE };
        let budget = if budgets.is_empty() {
            usize::MAX
        } else {
            let b = budgets[bi % budgets.len()];
            bi += 1;
            b
        };
        let offered = avail_end - in_pos;
        let res = catch(|| decompress_with_limit(r, &input[in_pos..avail_end], &mut buf, out_pos, budget, flags));
        let (st, c, w) = match res {
            Ok(x) => x,
            Err(p) => {
                run.panic = Some(p);
                break;
            }
        };
        run.calls.push(CallRec {
            offered,
            more,
            out_pos,
            budget,
            status: st,
            consumed: c,
            written: w,
            state_after: r.verif_state(),
        });
        // bounds are checked by monitors; the driver only protects itself
        let c_ok = c.min(offered);
        let w_ok = w.min(buf.len().saturating_sub(out_pos));
        in_pos += c_ok;
        run.out.extend_from_slice(&buf[out_pos..out_pos + w_ok]);
        out_pos += w_ok;
        if !flat && out_pos >= buf.len() {
            out_pos = 0;
        }
        run.status = st;
        if c_ok == 0 && w_ok == 0 {
            zero_progress += 1;
        } else {
            zero_progress = 0;
        }
        match st {
            TINFLStatus::NeedsMoreInput => {
                if ci < chunks.len() {
                    avail_end += chunks[ci];
                    ci += 1;
                    zero_progress = 0;
                } else {
                    // NeedsMoreInput without the flag: cannot happen per contract; terminal
                    break;
                }
            }
            TINFLStatus::HasMoreOutput => {
                if flat && out_pos >= buf.len() {
                    break;
                }
            }
            _ => break,
        }
    }
    run.consumed = in_pos;
    run.final_state = r.verif_state();
    run.adler = r.adler32();
    run
}

/// One call of `inflate()` as recorded by the wrappers' monitors.
#[derive(Clone, Debug)]
pub struct InfCall {
    pub offered: usize,
    pub out_len: usize,
    pub flush: MZFlush,
    pub res: StreamResult,
}

pub fn fmt_of(zlib: bool) -> DataFormat {
    if zlib {
        DataFormat::Zlib
    } else {
        DataFormat::Raw
    }
}

/// The usual `inflate()` driver loop: feed `in_chunk` bytes at a time, grant `out_chunk` bytes
/// of output per call, flush None until input is exhausted (then `last_flush`).
pub struct InfRun {
    pub out: Vec<u8>,
    pub consumed: usize,
    pub last: Result<MZStatus, MZError>,
    pub calls: usize,
    pub panic: Option<Panic>,
    pub stalled: bool,
}

pub fn drive_inflate(
    st: &mut InflateState,
    input: &[u8],
    in_chunk: usize,
    out_chunk: usize,
    finish_at_end: bool,
) -> InfRun {
    let mut run = InfRun { out: Vec::new(), consumed: 0, last: Ok(MZStatus::Ok), calls: 0, panic: None, stalled: false };
    let mut pos = 0usize;
    let mut obuf = vec![0u8; out_chunk.max(1)];
    let bound = input.len() * 2 + 64 + (1 << 22);
    let mut idle = 0;
    loop {
        run.calls += 1;
        if run.calls > bound || idle > 4 || run.out.len() > OUT_CAP {
            run.stalled = true;
            break;
        }
        let end = (pos + in_chunk.max(1)).min(input.len());
        let flush = if finish_at_end && end == input.len() { MZFlush::Finish } else { MZFlush::None };
        let r = catch(|| inflate(st, &input[pos..end], &mut obuf, flush));
        let r = match r {
            Ok(r) => r,
            Err(p) => {
                run.panic = Some(p);
                break;
            }
        };
        let c = r.bytes_consumed.min(end - pos);
        let w = r.bytes_written.min(obuf.len());
        pos += c;
        run.out.extend_from_slice(&obuf[..w]);
        run.last = r.status;
        if c == 0 && w == 0 {
            idle += 1;
        } else {
            idle = 0;
        }
        match r.status {
            Ok(MZStatus::Ok) => {}
            Err(MZError::Buf) if pos < input.len() || (w > 0) => {
                // starved / output full under Finish: keep going while anything moves
                if c == 0 && w == 0 && end == input.len() {
                    break;
                }
            }
            _ => break,
        }
    }
    run.consumed = pos;
    run
}
