//! C08 — decoder writes only inside the granted window; status codes are truthful.

use super::common::*;
use crate::ctx::{catch, Ctx};
use crate::gen::grammar;
use crate::report::{hex_short, Json, Report};
use crate::rng::{Hasher, Rng};
use miniz_oxide::inflate::core::{decompress_with_limit, DecompressorOxide};
use miniz_oxide::inflate::{decompress_to_vec_with_limit, decompress_to_vec_zlib_with_limit, TINFLStatus};

fn canary(i: usize, call: usize) -> u8 {
    (((i * 31 + call * 17 + 7) % 253) as u8) ^ 0x5a
}

struct Plan {
    bytes: Vec<u8>,
    plain: Vec<u8>,
    zlib: bool,
    ring: Option<usize>,
    slice_len: usize,
    /// per-call budgets (cycled), usize::MAX = unlimited
    budgets: Vec<usize>,
    chunk: usize,
    desc: String,
    /// when the cursor reaches the end of the buffer, first make one call with out_pos == len
    /// (an empty window: nothing may be written) before wrapping / stopping
    probe_end: bool,
    directed: bool,
}

/// A stream with one designated match (len, dist) starting at output offset `p`.
fn directed(rng: &mut Rng, len: usize, dist: usize, zl: bool) -> (grammar::GenStream, usize) {
    let mut b = grammar::Builder::new(zl);
    let p = dist + rng.below(40);
    // prefix: literals (and a few matches to keep it short when dist is large)
    if p > 600 {
        let seed = rng.bytes(300);
        b.lits(&seed);
        b.end_fixed(false);
        while b.out_len() < p {
            let left = p - b.out_len();
            if left >= 3 {
                let l = left.min(258);
                let d = 1 + rng.below(b.out_len().min(300));
                b.mat(l, d);
            } else {
                b.lit(rng.byte());
            }
        }
    } else {
        let pre = rng.bytes(p);
        b.lits(&pre);
    }
    b.mat(len, dist);
    let tail = 1 + rng.below(30);
    for _ in 0..tail {
        if rng.chance(1, 4) && b.out_len() > 0 {
            let d = 1 + rng.below(b.out_len().min(5));
            b.mat(3 + rng.below(10), d);
        } else {
            b.lit(rng.byte());
        }
    }
    if rng.bool() {
        b.end_fixed(true);
    } else {
        let o = grammar::DynOpts::random(rng);
        let _ = b.end_dynamic(true, rng, &o);
    }
    (b.finish(0), p)
}

fn monitor(rep: &mut Report, pl: &Plan) {
    rep.count("histories");
    let base = if pl.zlib { F_ZLIB } else { 0 };
    let flat = pl.ring.is_none();
    let flags0 = if flat { base | F_FLAT } else { base };
    let l = pl.slice_len;
    let mut expected: Vec<u8> = (0..l).map(|i| canary(i, 0)).collect();
    let mut buf = expected.clone();
    let mut d = DecompressorOxide::new();
    let mut produced = 0usize;
    let mut out_pos = 0usize;
    let mut end_probed = false;
    let mut in_pos = 0usize;
    let mut avail_end = pl.chunk.min(pl.bytes.len());
    let mut call = 0usize;
    let mut straddle = false;
    let det = |call: usize, what: &str| {
        Json::obj(vec![
            ("stream_hex", Json::s(&hex_short(&pl.bytes, 500))),
            ("zlib", Json::Bool(pl.zlib)),
            ("mode", Json::s(&if flat { format!("flat len {}", l) } else { format!("ring {}", l) })),
            ("budgets", Json::s(&format!("{:?}", &pl.budgets[..pl.budgets.len().min(12)]))),
            ("in_chunk", Json::u(pl.chunk)),
            ("plan", Json::s(&pl.desc)),
            ("call_no", Json::u(call)),
            ("what", Json::s(what)),
        ])
    };
    loop {
        call += 1;
        // (zero budgets in the cycle make calls that legitimately neither consume nor write)
        if call > (pl.bytes.len() * 2 + pl.plain.len() * 2 + 64) * (pl.budgets.len() + 1) {
            rep.violation("C08:no-progress", "driver loop exceeded its logical call bound".into(), det(call, ""));
            return;
        }
        let budget = pl.budgets[(call - 1) % pl.budgets.len()];
        let more = avail_end < pl.bytes.len();
        let flags = if more { flags0 | F_MORE } else { flags0 };
        let offered = avail_end - in_pos;
        let r = catch(|| decompress_with_limit(&mut d, &pl.bytes[in_pos..avail_end], &mut buf, out_pos, budget, flags));
        rep.count("monitored_calls");
        rep.eval();
        let (st, c, w) = match r {
            Ok(x) => x,
            Err(p) => {
                rep.violation(&format!("C08:panic:{}", p.site_file()), format!("panic in call {} (out_pos {}, budget {}): {}", call, out_pos, budget, p.text), det(call, ""));
                return;
            }
        };
        let room = l - out_pos;
        let region = budget.min(room);
        if c > offered {
            rep.violation("C08:consumed-exceeds-offered", format!("consumed {} > offered {}", c, offered), det(call, ""));
            return;
        }
        if w > region {
            rep.violation("C08:written-exceeds-budget", format!("call {}: reported {} bytes written but min(budget {}, space {}) = {}", call, w, budget, room, region), det(call, &format!("status {}", st_name(st))));
            return;
        }
        // compare with the shadow copy: canary (or earlier output) everywhere outside the window
        let mut bad_outside = None;
        let mut bad_inside_beyond = None;
        if buf[..out_pos] != expected[..out_pos] {
            bad_outside = (0..out_pos).find(|&i| buf[i] != expected[i]);
        } else if buf[out_pos + region..] != expected[out_pos + region..] {
            bad_outside = (out_pos + region..l).find(|&i| buf[i] != expected[i]);
        } else if buf[out_pos + w..out_pos + region] != expected[out_pos + w..out_pos + region] {
            bad_inside_beyond = (out_pos + w..out_pos + region).find(|&i| buf[i] != expected[i]);
        }
        if let Some(i) = bad_outside {
            rep.violation(
                "C08:write-outside-window",
                format!("call {}: byte at index {} changed ({:02x} -> {:02x}) but the granted window is [{}, {}) ({} written, status {})", call, i, expected[i], buf[i], out_pos, out_pos + region, w, st_name(st)),
                det(call, ""),
            );
            return;
        }
        if let Some(i) = bad_inside_beyond {
            rep.violation(
                "C08:write-beyond-reported-count",
                format!("call {}: byte at index {} inside the budget changed but only {} bytes were reported written from {} (status {})", call, i, w, out_pos, st_name(st)),
                det(call, ""),
            );
            return;
        }
        if produced + w > pl.plain.len() || buf[out_pos..out_pos + w] != pl.plain[produced..produced + w] {
            rep.violation("C08:wrong-bytes-in-window", format!("call {}: the {} bytes written at {} are not plaintext[{}..]", call, w, out_pos, produced), det(call, &format!("status {}", st_name(st))));
            return;
        }
        match st {
            TINFLStatus::HasMoreOutput => {
                rep.count("status_HasMoreOutput");
                if w != region {
                    rep.violation("C08:has-more-output-but-window-not-full", format!("call {}: HasMoreOutput with {} of {} window bytes written (out_pos {}, budget {})", call, w, region, out_pos, budget), det(call, ""));
                    return;
                }
            }
            TINFLStatus::NeedsMoreInput => {
                rep.count("status_NeedsMoreInput");
                if c != offered {
                    rep.violation("C08:needs-more-input-but-input-left", format!("call {}: NeedsMoreInput with {} of {} offered bytes consumed", call, c, offered), det(call, ""));
                    return;
                }
            }
            _ => {}
        }
        // did a match straddle the end of the window? (from the plan: designated match)
        if w == region && region > 0 && st == TINFLStatus::HasMoreOutput {
            straddle = true;
        }
        expected[out_pos..out_pos + w].copy_from_slice(&pl.plain[produced..produced + w]);
        in_pos += c;
        produced += w;
        out_pos += w;
        if out_pos >= l && pl.probe_end && !end_probed && st != TINFLStatus::Done {
            // keep the unwrapped cursor for one call: the granted window [len, len) is empty
            end_probed = true;
            rep.count("empty_window_probe_calls");
            continue;
        }
        if out_pos < l {
            end_probed = false;
        }
        if !flat && out_pos >= l {
            out_pos = 0;
            end_probed = false;
        }
        match st {
            TINFLStatus::Done => {
                if produced != pl.plain.len() {
                    rep.violation("C08:done-with-missing-output", format!("Done after {} of {} bytes", produced, pl.plain.len()), det(call, ""));
                }
                break;
            }
            TINFLStatus::NeedsMoreInput => {
                if avail_end >= pl.bytes.len() {
                    rep.violation("C08:needs-more-input-without-flag", "NeedsMoreInput although HAS_MORE_INPUT was not set".into(), det(call, ""));
                    return;
                }
                avail_end = (avail_end + pl.chunk).min(pl.bytes.len());
            }
            TINFLStatus::HasMoreOutput => {
                if flat && out_pos >= l {
                    break; // slice exhausted: legitimate end of this history
                }
                if c == 0 && w == 0 && region > 0 {
                    rep.violation("C08:no-progress", format!("call {}: HasMoreOutput with nothing consumed or written although {} bytes of window were granted", call, region), det(call, ""));
                    return;
                }
            }
            other => {
                rep.violation(&format!("C08:unexpected-status-{}", st_name(other)), format!("valid stream: status {} in call {}", st_name(other), call), det(call, ""));
                return;
            }
        }
    }
    if straddle && pl.directed {
        rep.count("histories_with_window_straddle");
    }
    if straddle {
        let mut h = Hasher::new();
        h.bytes(&pl.bytes).u64(pl.slice_len as u64).u64(pl.ring.is_some() as u64);
        for b in &pl.budgets {
            h.u64(*b as u64);
        }
        rep.nontrivial(h.finish());
        rep.sample(|| det(call, "history with a write ending exactly at the window end"));
    }
}

fn vector_limits(rep: &mut Report, rng: &mut Rng) {
    let zl = rng.bool();
    let g = grammar::random_stream(rng, &grammar::GenOpts::medium(zl));
    let n = g.plain.len();
    for limit in [0usize, n.saturating_sub(1), n, n + 1, 2 * n, usize::MAX, rng.below(n + 2)] {
        rep.eval();
        rep.count("vector_limit_calls");
        let r = catch(|| if zl { decompress_to_vec_zlib_with_limit(&g.bytes, limit) } else { decompress_to_vec_with_limit(&g.bytes, limit) });
        let det = || Json::obj(vec![("stream_hex", Json::s(&hex_short(&g.bytes, 400))), ("zlib", Json::Bool(zl)), ("true_size", Json::u(n)), ("limit", Json::s(&format!("{}", limit)))]);
        match r {
            Err(p) => rep.violation(&format!("C08:panic:{}", p.site_file()), format!("decompress_to_vec_with_limit panicked: {}", p.text), det()),
            Ok(Ok(out)) => {
                if limit < n {
                    rep.violation("C08:limit-exceeded", format!("limit {} < true size {} but Ok with {} bytes", limit, n, out.len()), det());
                } else if out != g.plain {
                    rep.violation("C08:limit-wrong-output", format!("limit {} >= size {}: wrong output ({} bytes)", limit, n, out.len()), det());
                }
            }
            Ok(Err(e)) => {
                if limit >= n {
                    rep.violation("C08:limit-spurious-failure", format!("limit {} >= true size {} but failed with {}", limit, n, st_name(e.status)), det());
                } else if e.status != TINFLStatus::HasMoreOutput || e.output.len() > limit || e.output[..] != g.plain[..e.output.len()] || e.output.len() != limit {
                    rep.violation("C08:limit-error-shape", format!("limit {} < size {}: status {} output {} bytes (expected HasMoreOutput with exactly the first {} plaintext bytes)", limit, n, st_name(e.status), e.output.len(), limit), det());
                }
            }
        }
    }
    let mut h = Hasher::new();
    h.bytes(&g.bytes);
    if n > 2 {
        rep.nontrivial(h.finish());
    }
}

pub fn run(ctx: &Ctx, rep: &mut Report) {
    // directed: every match length x distance class x delta around the budget end / slice end
    let dists = [1usize, 2, 3, 4, 5, 258, 32768];
    let n_directed = 256 * dists.len() as u64; // lengths 3..=258 x distances
    let n_random = ctx.n(15_000, 400_000);
    let n_vec = ctx.n(1000, 40_000);
    let reps = if ctx.thorough() { 6 } else { 1 };
    for k in ctx.cases(n_directed * reps + n_random + n_vec) {
        rep.cur_case = k;
        crate::ctx::begin_case(k);
        let mut rng = ctx.rng("case", k);
        if k < n_directed * reps {
            let kk = k % n_directed;
            let len = 3 + (kk / dists.len() as u64) as usize;
            let dist = dists[(kk % dists.len() as u64) as usize];
            let zl = rng.bool();
            let (g, p) = directed(&mut rng, len, dist, zl);
            for delta in -4i64..=4 {
                let edge = (p + len) as i64 + delta;
                if edge < 1 {
                    continue;
                }
                let edge = edge as usize;
                // (a) budget edge, flat, big slice
                monitor(rep, &Plan { bytes: g.bytes.clone(), plain: g.plain.clone(), zlib: zl, ring: None, slice_len: g.plain.len() + 8, budgets: vec![edge, usize::MAX], chunk: usize::MAX / 2, desc: format!("directed len {} dist {} at {} budget edge {:+}", len, dist, p, delta), directed: true, probe_end: true });
                // (b) slice end, flat
                if edge <= g.plain.len() {
                    monitor(rep, &Plan { bytes: g.bytes.clone(), plain: g.plain.clone(), zlib: zl, ring: None, slice_len: edge, budgets: vec![usize::MAX], chunk: usize::MAX / 2, desc: format!("directed len {} dist {} at {} slice end {:+}", len, dist, p, delta), directed: true, probe_end: true });
                }
                // (c) ring: budget edge; ring end when the match sits near 32768
                let ring = 32768usize;
                monitor(rep, &Plan { bytes: g.bytes.clone(), plain: g.plain.clone(), zlib: zl, ring: Some(ring), slice_len: ring, budgets: if edge > ring { vec![usize::MAX, edge - ring, 3, usize::MAX] } else { vec![edge, 3, usize::MAX] }, chunk: usize::MAX / 2, desc: format!("directed len {} dist {} at {} ring budget edge {:+}", len, dist, p, delta), directed: true, probe_end: true });
                // (d) two-step approach: stop 1..3 bytes before, then tiny budgets across the edge
                let before = edge.saturating_sub(1 + rng.below(3)).max(1);
                monitor(rep, &Plan { bytes: g.bytes.clone(), plain: g.plain.clone(), zlib: zl, ring: if rng.bool() { Some(ring) } else { None }, slice_len: if g.plain.len() + 8 > ring { 65536 } else { ring }, budgets: vec![before, 1, 2, 1, 259, usize::MAX], chunk: 1 + rng.below(64), desc: format!("directed len {} dist {} at {} stepping over edge {:+}", len, dist, p, delta), directed: true, probe_end: true });
            }
        } else if k < n_directed * reps + n_random {
            let zl = rng.bool();
            let o = if k % 3 == 0 { grammar::GenOpts::large(zl) } else { grammar::GenOpts::medium(zl) };
            let g = grammar::random_stream(&mut rng, &o);
            for _ in 0..3 {
                let ring = if rng.bool() { Some(*rng.pick(&[32768usize, 65536])) } else { None };
                let slice_len = match ring {
                    Some(r) => r,
                    None => {
                        if rng.chance(1, 3) {
                            rng.below(g.plain.len() + 2)
                        } else {
                            g.plain.len() + rng.below(4)
                        }
                    }
                };
                let nb = 1 + rng.below(6);
                let big = g.plain.len() > 20_000 || g.bytes.len() > 4000;
                let budgets: Vec<usize> = (0..nb).map(|_| if big { *rng.pick(&[64usize, 257, 258, 259, 260, 1000, 32768, usize::MAX]) } else { *rng.pick(&[0usize, 1, 2, 3, 4, 5, 64, 257, 258, 259, 260, 1000, 32768, usize::MAX]) }).collect();
                let budgets = if budgets.iter().all(|&b| b == 0) { vec![1] } else { budgets };
                let chunk = if big { *rng.pick(&[13usize, 14, 15, 100, usize::MAX / 2]) } else { *rng.pick(&[1usize, 2, 13, 14, 15, 100, usize::MAX / 2]) };
                monitor(rep, &Plan { bytes: g.bytes.clone(), plain: g.plain.clone(), zlib: zl, ring, slice_len, budgets, chunk, desc: "random".into(), directed: false, probe_end: rng.bool() });
            }
        } else {
            vector_limits(rep, &mut rng);
        }
    }
    if ctx.only_case.is_none() && ctx.tier != crate::ctx::Tier::Tiny {
        rep.gate("histories_with_window_straddle", 2000);
    }
}
