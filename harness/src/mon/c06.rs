//! C06 — end of stream is detected exactly; bytes after it are never consumed.

use super::common::*;
use crate::ctx::{catch, Ctx};
use crate::gen::{data, grammar};
use crate::report::{hex_short, Json, Report};
use crate::rng::{Hasher, Rng};
use miniz_oxide::inflate::core::{decompress, DecompressorOxide};
use miniz_oxide::inflate::stream::{inflate, InflateState};
use miniz_oxide::inflate::TINFLStatus;
use miniz_oxide::{MZFlush, MZStatus};
use miniz_oxide_c_api::{mz_inflate, mz_inflateEnd, mz_inflateInit2, mz_stream, tinfl_decompress, tinfl_decompressor};

struct Case {
    stream: Vec<u8>,
    plain: Vec<u8>,
    zlib: bool,
    trailer: Vec<u8>,
    desc: String,
    final_kind: u8,
    end_bit_mod8: usize,
    /// zlib stream decoded with the checksum ignored (IGNORE_ADLER32 / ZLibIgnoreChecksum): the
    /// trailer still belongs to the stream and must be consumed exactly
    ignore: bool,
}

fn trailer(rng: &mut Rng, n: usize) -> Vec<u8> {
    match rng.below(4) {
        0 => vec![0u8; n],
        1 => vec![0xffu8; n],
        2 => rng.bytes(n),
        _ => {
            // a second valid stream (container case), cut / padded to n
            let g = grammar::random_stream(rng, &grammar::GenOpts::small(rng.clone().bool()));
            let mut v = g.bytes;
            while v.len() < n {
                v.push(rng.byte());
            }
            v.truncate(n);
            v
        }
    }
}

fn gen_case(rng: &mut Rng, k: u64, big: bool) -> Case {
    let zl = rng.bool();
    let (stream, plain, desc, final_kind, end_bit) = match k % 5 {
        0 | 1 | 2 => {
            let mut o = if big { grammar::GenOpts::medium(zl) } else { grammar::GenOpts::small(zl) };
            o.random_header = rng.bool();
            let g = grammar::random_stream(rng, &o);
            let fk = g.blocks.last().map(|b| b.kind).unwrap_or(0);
            (g.bytes, g.plain, "grammar".to_string(), fk, g.end_bit)
        }
        3 => {
            // output sizes around the 32 KiB window of the streaming wrapper (and small ones)
            let n = if big { *rng.pick(&[32768usize, 65536, 98304]) + rng.below(5) } else { rng.size_biased(3000) };
            let cls = rng.below(data::NUM_CLASSES);
            let p = data::gen(rng, cls, n);
            let lvl = rng.below(11) as u8;
            let b = if zl { miniz_oxide::deflate::compress_to_vec_zlib(&p, lvl) } else { miniz_oxide::deflate::compress_to_vec(&p, lvl) };
            (b, p, format!("miniz level {} n {}", lvl, n), 9, 0)
        }
        _ => {
            let n = if big { *rng.pick(&[32768usize, 65536]) + rng.below(5) } else { rng.size_biased(3000) };
            let cls = rng.below(data::NUM_CLASSES);
            let p = data::gen(rng, cls, n);
            match crate::ffi::zlib::deflate(&p, rng.below(10) as i32, if zl { 15 } else { -15 }, 8, rng.below(5) as i32, 0, 0) {
                Some(b) => (b, p, format!("zlib n {}", n), 9, 0),
                None => {
                    let b = if zl { miniz_oxide::deflate::compress_to_vec_zlib(&p, 6) } else { miniz_oxide::deflate::compress_to_vec(&p, 6) };
                    (b, p, "miniz fallback".to_string(), 9, 0)
                }
            }
        }
    };
    let tn = match rng.below(6) {
        0 => 0,
        1 => 1 + rng.below(3),
        2 => 4 + rng.below(10),
        3 => 14 + rng.below(6),
        _ => rng.below(65),
    };
    let t = trailer(rng, tn);
    Case { stream, plain, zlib: zl, trailer: t, desc, final_kind, end_bit_mod8: end_bit % 8, ignore: zl && rng.chance(1, 3) }
}

fn det(c: &Case, entry: &str, sched: &str, observed: &str) -> Json {
    Json::obj(vec![
        ("entry_point", Json::s(entry)),
        ("zlib", Json::Bool(c.zlib)),
        ("checksum_ignored", Json::Bool(c.ignore)),
        ("stream_source", Json::s(&c.desc)),
        ("encoded_len", Json::u(c.stream.len())),
        ("stream_hex", Json::s(&hex_short(&c.stream, 500))),
        ("trailing_hex", Json::s(&hex_short(&c.trailer, 80))),
        ("plain_len", Json::u(c.plain.len())),
        ("schedule", Json::s(sched)),
        ("observed", Json::s(observed)),
    ])
}

fn check_core(rep: &mut Report, c: &Case, input: &[u8], ring: bool, chunking: &Chunking, budgets: &[usize]) {
    let e = c.stream.len();
    let base = if c.zlib { F_ZLIB } else { 0 } | if c.ignore { F_IGNORE } else { 0 };
    let mode = if ring { BufMode::Ring(32768) } else { BufMode::Flat(c.plain.len() + 1) };
    let mut d = DecompressorOxide::new();
    let entry = if ring { "core_ring32k" } else { "core_flat" };
    let run = drive_core(&mut d, input, base, &mode, &chunking.lens(input.len()), budgets, None);
    rep.count(&format!("runs_{}", entry));
    rep.eval();
    let sched = format!("{} budgets {:?}", chunking.describe(), budgets);
    if let Some(p) = &run.panic {
        rep.violation(&format!("C06:panic:{}", p.site_file()), format!("{} panicked: {}", entry, p.text), det(c, entry, &sched, &run.tail(4)));
        return;
    }
    if run.status != TINFLStatus::Done || run.out != c.plain {
        rep.violation(&format!("C06:{}:not-done", entry), format!("valid stream + {} trailing bytes did not decode: status {} out {} of {}", c.trailer.len(), st_name(run.status), run.out.len(), c.plain.len()), det(c, entry, &sched, &run.tail(4)));
        return;
    }
    if run.consumed != e {
        rep.violation(
            &format!("C06:{}:consumed-{}", entry, if run.consumed > e { "too-many" } else { "too-few" }),
            format!("{}: consumed {} at Done but the stream's encoded length is {} ({} trailing bytes, {} calls)", entry, run.consumed, e, c.trailer.len(), run.calls.len()),
            det(c, entry, &sched, &run.tail(5)),
        );
        return;
    }
    // no later call consumes anything
    let mut buf = vec![0u8; 64];
    let r = catch(|| decompress(&mut d, &input[e..], &mut buf, 0, base | F_FLAT));
    match r {
        Ok((_, cons, _)) if cons == 0 => {}
        Ok((st, cons, w)) => rep.violation(&format!("C06:{}:consumes-after-done", entry), format!("a call after Done consumed {} bytes (status {}, wrote {})", cons, st_name(st), w), det(c, entry, &sched, "")),
        Err(p) => rep.violation(&format!("C06:panic:{}", p.site_file()), format!("call after Done panicked: {}", p.text), det(c, entry, &sched, "")),
    }
    if run.calls.len() >= 2 && !c.trailer.is_empty() {
        let mut h = Hasher::new();
        h.bytes(input).u64(ring as u64).bytes(sched.as_bytes());
        rep.nontrivial(h.finish());
    }
}

fn check_inflate(rep: &mut Report, c: &Case, input: &[u8], in_chunk: usize, out_sizes: &[usize], first_finish: bool) {
    let e = c.stream.len();
    let mut st = InflateState::new_boxed(if c.ignore { miniz_oxide::DataFormat::ZLibIgnoreChecksum } else { fmt_of(c.zlib) });
    rep.count(if c.ignore { "inflate_runs_checksum_ignored" } else { "inflate_runs_checksum_verified_or_raw" });
    let entry = if first_finish { "inflate_first_finish" } else { "inflate_loop" };
    let sched = format!("in_chunk {} out_sizes {:?}", in_chunk, out_sizes);
    rep.count(&format!("runs_{}", entry));
    rep.eval();
    let mut pos = 0usize;
    let mut out = Vec::new();
    let mut oi = 0usize;
    let mut calls = 0usize;
    let mut idle = 0;
    loop {
        calls += 1;
        if calls > input.len() * 2 + c.plain.len() * 2 + 100 || idle > 6 {
            rep.violation(&format!("C06:{}:no-stream-end", entry), format!("driver loop did not reach StreamEnd (consumed {} of {}, out {} of {})", pos, e, out.len(), c.plain.len()), det(c, entry, &sched, ""));
            return;
        }
        let end = (pos + in_chunk.max(1)).min(input.len());
        let osz = if first_finish { c.plain.len() + 1 } else { out_sizes[oi % out_sizes.len()] };
        oi += 1;
        let mut obuf = vec![0u8; osz];
        let flush = if first_finish { MZFlush::Finish } else { MZFlush::None };
        let slice = if first_finish { &input[..] } else { &input[pos..end] };
        let r = match catch(|| inflate(&mut st, slice, &mut obuf, flush)) {
            Ok(r) => r,
            Err(p) => {
                rep.violation(&format!("C06:panic:{}", p.site_file()), format!("{} panicked: {}", entry, p.text), det(c, entry, &sched, ""));
                return;
            }
        };
        pos += r.bytes_consumed;
        out.extend_from_slice(&obuf[..r.bytes_written.min(osz)]);
        if r.bytes_consumed == 0 && r.bytes_written == 0 {
            idle += 1;
        } else {
            idle = 0;
        }
        match r.status {
            Ok(MZStatus::StreamEnd) => break,
            Ok(_) => {}
            Err(miniz_oxide::MZError::Buf) if !first_finish => {}
            Err(err) => {
                rep.violation(&format!("C06:{}:error", entry), format!("{:?} on a valid stream with {} trailing bytes (consumed {}, out {})", err, c.trailer.len(), pos, out.len()), det(c, entry, &sched, ""));
                return;
            }
        }
    }
    if out != c.plain {
        rep.violation(&format!("C06:{}:wrong-output", entry), format!("output {} bytes vs {}", out.len(), c.plain.len()), det(c, entry, &sched, ""));
        return;
    }
    if pos != e {
        rep.violation(
            &format!("C06:{}:consumed-{}", entry, if pos > e { "too-many" } else { "too-few" }),
            format!("{}: bytes_consumed sums to {} at StreamEnd but the encoded length is {} ({} trailing bytes)", entry, pos, e, c.trailer.len()),
            det(c, entry, &sched, &format!("{} calls", calls)),
        );
        return;
    }
    // stable afterwards, consuming nothing
    let mut obuf = vec![0u8; 16];
    let flush = if first_finish { MZFlush::Finish } else { MZFlush::None };
    if let Ok(r) = catch(|| inflate(&mut st, &input[e..], &mut obuf, flush)) {
        if r.bytes_consumed != 0 {
            rep.violation(&format!("C06:{}:consumes-after-end", entry), format!("a call after StreamEnd consumed {} bytes", r.bytes_consumed), det(c, entry, &sched, ""));
        }
    }
    if calls >= 2 && !c.trailer.is_empty() {
        let mut h = Hasher::new();
        h.bytes(input).bytes(sched.as_bytes()).u64(first_finish as u64);
        rep.nontrivial(h.finish());
    }
}

fn check_c_api(rep: &mut Report, c: &Case, input: &[u8], in_chunk: usize, out_chunk: usize) {
    let e = c.stream.len();
    // tinfl_decompress: flat buffer, chunks of input
    {
        let sched = format!("tinfl_decompress in_chunk {}", in_chunk);
        rep.count("runs_tinfl_decompress");
        rep.eval();
        let mut r = tinfl_decompressor::default();
        let mut out = vec![0u8; c.plain.len() + 1];
        let mut pos = 0usize;
        let mut opos = 0usize;
        let mut status;
        let mut calls = 0;
        loop {
            calls += 1;
            let end = (pos + in_chunk.max(1)).min(input.len());
            let mut in_size = end - pos;
            let mut out_size = out.len() - opos;
            let flags = (if c.zlib { F_ZLIB } else { 0 }) | (if c.ignore { F_IGNORE } else { 0 }) | F_FLAT | if end < input.len() { F_MORE } else { 0 };
            let res = catch(|| unsafe { tinfl_decompress(&mut r, input.as_ptr().add(pos), &mut in_size, out.as_mut_ptr(), out.as_mut_ptr().add(opos), &mut out_size, flags) });
            status = match res {
                Ok(s) => s,
                Err(p) => {
                    rep.violation("C06:panic:tinfl_decompress", format!("panicked: {}", p.text), det(c, "tinfl_decompress", &sched, ""));
                    return;
                }
            };
            pos += in_size;
            opos += out_size;
            if status != 1 || calls > input.len() + 10 {
                break;
            }
        }
        if status != 0 || out[..opos] != c.plain[..] {
            rep.violation("C06:tinfl_decompress:not-done", format!("status {} out {} of {}", status, opos, c.plain.len()), det(c, "tinfl_decompress", &sched, ""));
        } else if pos != e {
            rep.violation(&format!("C06:tinfl_decompress:consumed-{}", if pos > e { "too-many" } else { "too-few" }), format!("*in_buf_size sums to {} but the encoded length is {}", pos, e), det(c, "tinfl_decompress", &sched, ""));
        }
    }
    // mz_inflate: total_in / next_in
    {
        let sched = format!("mz_inflate avail_in {} avail_out {}", in_chunk, out_chunk);
        rep.count("runs_mz_inflate");
        rep.eval();
        let mut s = mz_stream::default();
        let rc = unsafe { mz_inflateInit2(&mut s, if c.zlib { 15 } else { -15 }) };
        if rc != 0 {
            rep.violation("C06:mz_inflate:init", format!("mz_inflateInit2 returned {}", rc), det(c, "mz_inflate", &sched, ""));
            return;
        }
        let mut out = Vec::new();
        let mut obuf = vec![0u8; out_chunk.max(1)];
        let mut pos = 0usize;
        let mut rc;
        let mut calls = 0usize;
        let mut idle = 0;
        loop {
            calls += 1;
            let end = (pos + in_chunk.max(1)).min(input.len());
            s.next_in = unsafe { input.as_ptr().add(pos) };
            s.avail_in = (end - pos) as u32;
            s.next_out = obuf.as_mut_ptr();
            s.avail_out = obuf.len() as u32;
            let before_in = s.total_in;
            rc = match catch(|| unsafe { mz_inflate(&mut s, 0) }) {
                Ok(x) => x,
                Err(p) => {
                    rep.violation("C06:panic:mz_inflate", format!("panicked: {}", p.text), det(c, "mz_inflate", &sched, ""));
                    return;
                }
            };
            let cons = (end - pos) - s.avail_in as usize;
            let w = obuf.len() - s.avail_out as usize;
            if (s.total_in - before_in) as usize != cons || s.next_in != unsafe { input.as_ptr().add(pos + cons) } {
                rep.violation("C06:mz_inflate:accounting", format!("total_in rose by {} but avail_in dropped by {}", s.total_in - before_in, cons), det(c, "mz_inflate", &sched, ""));
                break;
            }
            pos += cons;
            out.extend_from_slice(&obuf[..w]);
            if cons == 0 && w == 0 {
                idle += 1;
            } else {
                idle = 0;
            }
            if rc == 1 || (rc < 0 && rc != -5) || idle > 6 || calls > input.len() * 2 + c.plain.len() * 2 + 100 {
                break;
            }
        }
        if rc != 1 || out != c.plain {
            rep.violation("C06:mz_inflate:no-stream-end", format!("rc {} out {} of {} consumed {}", rc, out.len(), c.plain.len(), pos), det(c, "mz_inflate", &sched, ""));
        } else if s.total_in as usize != e || pos != e {
            rep.violation(&format!("C06:mz_inflate:consumed-{}", if pos > e { "too-many" } else { "too-few" }), format!("total_in = {} (next_in advanced {}) at MZ_STREAM_END but the encoded length is {}", s.total_in, pos, e), det(c, "mz_inflate", &sched, ""));
        }
        unsafe { mz_inflateEnd(&mut s) };
    }
}

pub fn run(ctx: &Ctx, rep: &mut Report) {
    let n = ctx.n(12_000, 480_000);
    for k in ctx.cases(n) {
        rep.cur_case = k;
        crate::ctx::begin_case(k);
        let mut rng = ctx.rng("case", k);
        let big = k % 7 == 6;
        let c = gen_case(&mut rng, k, big);
        rep.count("streams");
        let mut input = c.stream.clone();
        input.extend_from_slice(&c.trailer);
        let e = c.stream.len();
        let n_out = c.plain.len();
        rep.count(&format!("final_block_kind_{}_endbit_{}", c.final_kind, c.end_bit_mod8));
        rep.count(&format!("trailer_len_class_{}", match c.trailer.len() { 0 => "0", 1..=3 => "1-3", 4..=13 => "4-13", 14..=19 => "14-19", _ => "20-64" }));
        // input partitions: every 2-chunk split for short streams, otherwise random
        let mut chunkings: Vec<Chunking> = vec![Chunking::OneShot, Chunking::Fixed(1)];
        if input.len() <= if ctx.thorough() { 2048 } else { 260 } {
            for cut in 1..input.len() {
                chunkings.push(Chunking::Cuts(vec![cut]));
            }
        } else {
            for _ in 0..12 {
                let mut cuts: Vec<usize> = (0..1 + rng.below(3)).map(|_| rng.below(input.len() + 1)).collect();
                cuts.sort();
                chunkings.push(Chunking::Cuts(cuts));
            }
            // cuts near the end of the stream
            for d in 0..6usize {
                chunkings.push(Chunking::Cuts(vec![e.saturating_sub(d)]));
                chunkings.push(Chunking::Cuts(vec![(e + d).min(input.len())]));
            }
        }
        for ch in &chunkings {
            for ring in [false, true] {
                if ring && n_out > 200_000 {
                    continue;
                }
                check_core(rep, &c, &input, ring, ch, &[]);
            }
        }
        // output-side suspensions right before the end of the stream
        for j in 0..6usize {
            if n_out > j {
                let first = n_out - j;
                for ring in [false, true] {
                    check_core(rep, &c, &input, ring, &Chunking::OneShot, &[first, 1, usize::MAX]);
                    let cut = rng.below(input.len() + 1);
                    check_core(rep, &c, &input, ring, &Chunking::Cuts(vec![cut]), &[first.saturating_sub(rng.below(3)).max(1), 2, 1, 1, usize::MAX]);
                }
            }
        }
        for _ in 0..4 {
            let b: Vec<usize> = (0..1 + rng.below(4)).map(|_| 1 + rng.below(300)).collect();
            check_core(rep, &c, &input, rng.bool(), &Chunking::Fixed(1 + rng.below(50)), &b);
        }
        // streaming wrapper
        for _ in 0..6 {
            let in_chunk = *rng.pick(&[1usize, 2, 5, 64, 1000, 1 << 30]);
            let outs: Vec<usize> = match rng.below(4) {
                0 => vec![1],
                1 => vec![n_out.saturating_sub(rng.below(4)).max(1), 1, 1, 1, 1, 1, 70000],
                2 => vec![32768 - rng.below(3), 1 + rng.below(3), 40000],
                _ => vec![1 + rng.below(70000)],
            };
            check_inflate(rep, &c, &input, in_chunk, &outs, false);
        }
        check_inflate(rep, &c, &input, 1 << 30, &[1], true);
        // C API
        for _ in 0..3 {
            let in_chunk = *rng.pick(&[1usize, 3, 17, 500, 1 << 30]);
            let out_chunk = *rng.pick(&[1usize, 7, 1000, 32768, 70000]);
            check_c_api(rep, &c, &input, in_chunk, out_chunk);
        }
        if !c.trailer.is_empty() {
            rep.sample(|| Json::obj(vec![("stream_hex", Json::s(&hex_short(&c.stream, 200))), ("encoded_len", Json::u(e)), ("trailing_hex", Json::s(&hex_short(&c.trailer, 64))), ("zlib", Json::Bool(c.zlib)), ("entry_points", Json::s("core flat, core ring 32K (all 2-chunk splits / random cuts / budgets ending 0..5 bytes before the end), inflate() loop and first-call Finish, tinfl_decompress, mz_inflate"))]));
        }
    }
}
