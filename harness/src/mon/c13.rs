//! C13 — streaming inflate obeys its status protocol and always makes progress.
//!
//! A sequential specification of the protocol (written from the property statement and the doc
//! comment of `inflate()`; it knows the plaintext, the encoded length and — for corrupt streams —
//! the reference decoder's output, never the implementation's buffering) is checked against every
//! call of exhaustively enumerated and random call histories.

use super::common::mz_name;
use crate::ctx::{catch, Ctx};
use crate::gen::{data, faults, grammar};
use crate::refimpl::inflate::{inflate as ref_inflate, Opts, Verdict};
use crate::report::{hex_short, Json, Report};
use crate::rng::{Hasher, Rng};
use miniz_oxide::inflate::stream::{inflate, InflateState};
use miniz_oxide::{DataFormat, MZError, MZFlush, MZStatus, StreamResult};

#[derive(Clone, Copy, Debug, PartialEq, Eq)]
pub enum Class {
    Valid,
    Trailing,
    Truncated,
    Corrupt,
}

pub struct Subject {
    pub input: Vec<u8>,
    pub zlib: bool,
    pub class: Class,
    /// encoded length of the stream inside `input` (Valid/Trailing)
    pub e: usize,
    /// expected output on the streaming path (32 KiB zero-filled window semantics)
    pub exp_ring: Vec<u8>,
    /// expected output when the first call is Finish (flat semantics)
    pub exp_flat: Vec<u8>,
    pub desc: String,
}

impl Subject {
    fn from_bytes(input: Vec<u8>, zlib: bool, class: Class, desc: String) -> Subject {
        let zeros = vec![0u8; 32768];
        let rr = ref_inflate(&input, Opts::fmt(zlib).ring(&zeros, 0));
        let rf = ref_inflate(&input, Opts::fmt(zlib));
        let e = match rf.verdict {
            Verdict::Complete { consumed, .. } => consumed,
            _ => input.len(),
        };
        Subject { input, zlib, class, e, exp_ring: rr.out, exp_flat: rf.out, desc }
    }
}

fn small_valid(rng: &mut Rng, zl: bool, kind: usize) -> grammar::GenStream {
    match kind {
        0 => {
            // empty plaintext
            let mut b = grammar::Builder::new(zl);
            b.stored(&[], true, 0);
            b.finish(0)
        }
        1 => {
            let mut b = grammar::Builder::new(zl);
            b.lit(b'x');
            b.end_fixed(true);
            b.finish(0)
        }
        2 => {
            // > 32 KiB of plaintext from a tiny stream: the wrapper's window wraps
            let mut b = grammar::Builder::new(zl);
            b.lits(b"abcdefgh");
            while b.out_len() < 40_000 {
                b.mat(258, 8);
            }
            b.end_fixed(false);
            b.lits(b"the end");
            b.end_fixed(true);
            b.finish(0)
        }
        _ => {
            let mut o = grammar::GenOpts::small(zl);
            o.max_blocks = 3;
            o.max_tokens = 30;
            grammar::random_stream(rng, &o)
        }
    }
}

pub fn subjects(rng: &mut Rng) -> Vec<Subject> {
    let mut v = Vec::new();
    for (i, kind) in [0usize, 1, 2, 3, 3, 3].iter().enumerate() {
        let zl = i % 2 == 0;
        let g = small_valid(rng, zl, *kind);
        v.push(Subject::from_bytes(g.bytes, zl, Class::Valid, format!("valid kind {} zlib {}", kind, zl)));
    }
    // trailing bytes
    for zl in [false, true] {
        let g = small_valid(rng, zl, 3);
        let mut b = g.bytes.clone();
        b.extend_from_slice(&rng.bytes(5));
        v.push(Subject::from_bytes(b, zl, Class::Trailing, format!("valid + 5 trailing bytes zlib {}", zl)));
    }
    // truncated
    for zl in [false, true] {
        let g = small_valid(rng, zl, 3);
        let cut = if zl { g.bytes.len() - 1 - rng.below(3) } else { (g.bytes.len() / 2).max(1) };
        v.push(Subject::from_bytes(g.bytes[..cut].to_vec(), zl, Class::Truncated, format!("truncated at {} of {} zlib {}", cut, g.bytes.len(), zl)));
    }
    // corrupt
    for _ in 0..200 {
        if v.len() >= 12 {
            break;
        }
        // only faults that are invalid under BOTH window semantics (a distance reaching before the
        // stream start is valid on the streaming path, where the window holds zeros)
        let kind = *rng.pick(&[faults::Kind::ReservedBlockType, faults::Kind::StoredLenMismatch, faults::Kind::WrongTrailer, faults::Kind::Dist30, faults::Kind::OverLit, faults::Kind::LitLen286]);
        if let Some(f) = faults::build(rng, kind, rng.clone().bool()) {
            if f.bytes.len() < 400 {
                let zeros = vec![0u8; 32768];
                let inv_ring = matches!(ref_inflate(&f.bytes, Opts::fmt(f.zlib).ring(&zeros, 0)).verdict, Verdict::Invalid { .. });
                let inv_flat = matches!(ref_inflate(&f.bytes, Opts::fmt(f.zlib)).verdict, Verdict::Invalid { .. });
                if inv_ring && inv_flat {
                    v.push(Subject::from_bytes(f.bytes, f.zlib, Class::Corrupt, format!("corrupt {:?}", kind)));
                }
            }
        }
    }
    v
}

#[derive(Clone, Copy, Debug, PartialEq, Eq)]
pub struct Action {
    pub chunk: usize, // usize::MAX = rest
    pub out: usize,
    pub flush: MZFlush,
}

pub const CHUNKS: [usize; 4] = [0, 1, 2, usize::MAX];
pub const OUTS: [usize; 4] = [0, 1, 3, 100_000];
pub const FLUSHES: [MZFlush; 4] = [MZFlush::None, MZFlush::Sync, MZFlush::Finish, MZFlush::Full];

/// Shadow (specification) state.
#[derive(Clone, Debug)]
struct Spec {
    pos: usize,
    delivered: usize,
    /// first effective (non-Full) call seen?
    started: bool,
    /// the first effective call was Finish: flat semantics, and poisoned if it did not end the stream
    flat_path: bool,
    ever_finish: bool,
    ended: bool,
    data_err: bool,
    /// an error status was returned whose consequences the property does not pin down
    undetermined: bool,
    /// last call was a starved-input Err(Buf)
    starved: bool,
    history: Vec<String>,
}

struct Checker<'a> {
    s: &'a Subject,
    out_buf: Vec<u8>,
}

type V = Option<(String, String)>; // (signature, message)

impl<'a> Checker<'a> {
    fn expected(&self, spec: &Spec) -> &[u8] {
        if spec.flat_path {
            &self.s.exp_flat
        } else {
            &self.s.exp_ring
        }
    }

    /// Apply one call to the implementation and check it against the specification.
    fn step(&mut self, st: &mut InflateState, spec: &mut Spec, a: Action, log: bool) -> V {
        let s = self.s;
        let avail = s.input.len() - spec.pos;
        let n_in = if a.chunk == usize::MAX { avail } else { a.chunk.min(avail) };
        let input = &s.input[spec.pos..spec.pos + n_in];
        let out = &mut self.out_buf[..a.out];
        let res: Result<StreamResult, _> = catch(|| inflate(st, input, out, a.flush));
        let r = match res {
            Ok(r) => r,
            Err(p) => return Some((format!("C13:panic:{}", p.site_file()), format!("inflate() panicked: {}", p.text))),
        };
        if log {
            spec.history.push(format!("in={} out={} {:?} -> {} c={} w={}", n_in, a.out, a.flush, mz_name(&r.status), r.bytes_consumed, r.bytes_written));
        }
        // --- universal invariants
        if r.bytes_consumed > n_in || r.bytes_written > a.out {
            return Some(("C13:counts-exceed-buffers".into(), format!("consumed {} of {}, written {} of {}", r.bytes_consumed, n_in, r.bytes_written, a.out)));
        }
        if a.flush == MZFlush::Full {
            if r.status != Err(MZError::Stream) || r.bytes_consumed != 0 || r.bytes_written != 0 {
                return Some(("C13:full-flush-not-stream-error".into(), format!("Full flush returned {} ({}, {})", mz_name(&r.status), r.bytes_consumed, r.bytes_written)));
            }
            return None;
        }
        if !spec.started {
            spec.started = true;
            spec.flat_path = a.flush == MZFlush::Finish;
        }
        let exp = self.expected(spec).to_vec();
        let w = r.bytes_written;
        if spec.delivered + w > exp.len() || self.out_buf[..w] != exp[spec.delivered..spec.delivered + w] {
            return Some(("C13:delivered-not-a-prefix".into(), format!("bytes delivered by this call ({} at offset {}) are not the expected plaintext (expected total {})", w, spec.delivered, exp.len())));
        }
        spec.delivered += w;
        spec.pos += r.bytes_consumed;
        if matches!(s.class, Class::Valid | Class::Trailing) && spec.pos > s.e {
            return Some(("C13:consumed-past-stream-end".into(), format!("total consumed {} > encoded length {}", spec.pos, s.e)));
        }
        let was_ended = spec.ended;
        let was_data = spec.data_err;
        let was_starved = spec.starved;
        spec.starved = false;
        let progress = r.bytes_consumed + r.bytes_written > 0;
        // --- stickiness
        if was_data && r.status != Err(MZError::Data) {
            return Some(("C13:data-error-not-sticky".into(), format!("a previous call returned Err(Data) but this one returned {}", mz_name(&r.status))));
        }
        if was_ended && !spec.undetermined {
            let legal = if spec.ever_finish { a.flush == MZFlush::Finish } else { a.flush != MZFlush::Finish };
            if legal && (r.status != Ok(MZStatus::StreamEnd) || progress) {
                return Some(("C13:stream-end-not-stable".into(), format!("after StreamEnd a legal continuation ({:?}) returned {} ({}, {})", a.flush, mz_name(&r.status), r.bytes_consumed, r.bytes_written)));
            }
        }
        if a.flush == MZFlush::Finish {
            spec.ever_finish = true;
        }
        match r.status {
            Ok(MZStatus::StreamEnd) => {
                let complete = matches!(s.class, Class::Valid | Class::Trailing);
                if !complete {
                    return Some(("C13:stream-end-on-bad-stream".into(), format!("StreamEnd on a {:?} stream", s.class)));
                }
                if spec.delivered != exp.len() || spec.pos != s.e {
                    return Some(("C13:stream-end-too-early".into(), format!("StreamEnd with {} of {} bytes delivered and {} of {} consumed", spec.delivered, exp.len(), spec.pos, s.e)));
                }
                spec.ended = true;
            }
            Ok(MZStatus::Ok) => {
                if n_in > 0 && a.out > 0 && !progress {
                    return Some(("C13:no-progress".into(), format!("Ok with nothing consumed or written although {} input bytes and {} output bytes were offered", n_in, a.out)));
                }
                if matches!(s.class, Class::Valid | Class::Trailing) && spec.delivered == exp.len() && spec.pos == s.e && !spec.undetermined {
                    return Some(("C13:stream-end-not-reported".into(), "everything delivered and the last stream byte consumed, but the status is Ok".into()));
                }
                if was_starved && n_in > 0 && a.out > 0 && !progress {
                    return Some(("C13:starvation-not-recoverable".into(), "input supplied after a starved Err(Buf) made no progress".into()));
                }
            }
            Ok(MZStatus::NeedDict) => return Some(("C13:need-dict".into(), "NeedDict returned".into())),
            Err(MZError::Data) => {
                if matches!(s.class, Class::Valid | Class::Trailing | Class::Truncated) && !spec.undetermined && !(spec.flat_path && spec.ever_finish) {
                    return Some(("C13:data-error-on-good-stream".into(), format!("Err(Data) on a {:?} stream with no earlier undetermined error", s.class)));
                }
                spec.data_err = true;
            }
            Err(MZError::Buf) => {
                if n_in == 0 && a.flush != MZFlush::Finish {
                    // starved input: recoverable
                    spec.starved = true;
                    if progress {
                        // fine: something was still pending
                    }
                } else if a.flush == MZFlush::Finish {
                    // Finish that could not complete. The property fixes the status; what may
                    // follow is pinned down only when the caller was truthful (offered all the
                    // input there is) on the streaming path and merely ran out of output space.
                    let withheld = n_in < avail;
                    let out_full = w == a.out;
                    if spec.flat_path || withheld || !out_full {
                        spec.undetermined = true;
                    }
                } else if n_in > 0 && a.out > 0 && !progress && !spec.undetermined {
                    return Some(("C13:buf-error-with-buffers".into(), format!("Err(Buf) without progress although {} input and {} output bytes were offered ({:?})", n_in, a.out, a.flush)));
                }
            }
            Err(MZError::Stream) => {
                // non-Finish after Finish: documented, not part of the property; no state change expected
                if !(spec.ever_finish && a.flush != MZFlush::Finish) {
                    return Some(("C13:unexpected-stream-error".into(), format!("Err(Stream) for {:?}", a.flush)));
                }
            }
            Err(e) => return Some((format!("C13:unexpected-error-{:?}", e), format!("{:?}", e))),
        }
        None
    }

    /// Canonical drain with a legal flush discipline; checks the end-of-history expectations.
    fn drain(&mut self, st: &mut InflateState, spec: &mut Spec, log: bool) -> V {
        let s = self.s;
        let flush = if spec.ever_finish { MZFlush::Finish } else { MZFlush::None };
        let bound = 64 + s.input.len() + self.expected(spec).len() / 1000;
        let mut last: Result<MZStatus, MZError> = Ok(MZStatus::Ok);
        let mut terminal = false;
        for _ in 0..bound {
            let before = (spec.pos, spec.delivered);
            let hist_len = spec.history.len();
            let a = Action { chunk: usize::MAX, out: 100_000, flush };
            // replicate step but capture status
            let avail = s.input.len() - spec.pos;
            let _ = avail;
            if let Some(v) = self.step(st, spec, a, log) {
                return Some(v);
            }
            let _ = hist_len;
            // recover the status from the spec transitions
            last = if spec.data_err {
                Err(MZError::Data)
            } else if spec.ended {
                Ok(MZStatus::StreamEnd)
            } else if (spec.pos, spec.delivered) == before {
                Err(MZError::Buf)
            } else {
                Ok(MZStatus::Ok)
            };
            if spec.data_err || spec.ended || (spec.pos, spec.delivered) == before {
                terminal = true;
                break;
            }
        }
        if spec.undetermined {
            return None;
        }
        match s.class {
            Class::Valid | Class::Trailing => {
                if !spec.ended {
                    return Some(("C13:driver-loop-did-not-finish".into(), format!("a legal drain ({:?}, all input, 100000-byte output) ended with {} after delivering {} of {} bytes (terminal {})", flush, mz_name(&last), spec.delivered, self.expected(spec).len(), terminal)));
                }
            }
            Class::Truncated => {
                if spec.ended || spec.data_err {
                    return Some(("C13:truncated-stream-misreported".into(), format!("truncated stream ended with {}", mz_name(&last))));
                }
            }
            Class::Corrupt => {
                if !spec.data_err {
                    return Some(("C13:corrupt-stream-not-reported".into(), format!("corrupt stream drained to {} without Err(Data)", mz_name(&last))));
                }
            }
        }
        None
    }
}

fn new_spec() -> Spec {
    Spec { pos: 0, delivered: 0, started: false, flat_path: false, ever_finish: false, ended: false, data_err: false, undetermined: false, starved: false, history: Vec::new() }
}

fn report(rep: &mut Report, s: &Subject, seq: &[Action], v: (String, String), ck: &mut Checker) {
    // re-run with logging for the witness
    let mut st = InflateState::new_boxed(if s.zlib { DataFormat::Zlib } else { DataFormat::Raw });
    let mut spec = new_spec();
    for a in seq {
        if ck.step(&mut st, &mut spec, *a, true).is_some() {
            break;
        }
    }
    let _ = ck.drain(&mut st, &mut spec, true);
    rep.violation(
        &v.0,
        format!("{} [{}]", v.1, s.desc),
        Json::obj(vec![
            ("stream", Json::s(&s.desc)),
            ("input_hex", Json::s(&hex_short(&s.input, 500))),
            ("zlib", Json::Bool(s.zlib)),
            ("sequence", Json::Arr(seq.iter().map(|a| Json::s(&format!("chunk={} out={} {:?}", if a.chunk == usize::MAX { "rest".to_string() } else { a.chunk.to_string() }, a.out, a.flush))).collect())),
            ("calls", Json::Arr(spec.history.iter().map(|h| Json::s(h)).collect())),
        ]),
    );
}

/// Exhaustive enumeration to `depth` over the 64-action alphabet (DFS with state cloning).
#[allow(clippy::too_many_arguments)]
fn dfs(rep: &mut Report, ck: &mut Checker, st: &InflateState, spec: &Spec, seq: &mut Vec<Action>, depth: usize, first_filter: Option<usize>, wrapper_states: &mut std::collections::BTreeSet<String>) {
    if seq.len() == depth {
        let mut st2 = Box::new(st.clone());
        let mut sp2 = spec.clone();
        rep.eval();
        rep.count("sequences_enumerated");
        if let Some(v) = ck.drain(&mut st2, &mut sp2, false) {
            let s = ck.s;
            let seqc = seq.clone();
            report(rep, s, &seqc, v, ck);
        }
        return;
    }
    let mut idx = 0usize;
    for &chunk in &CHUNKS {
        for &out in &OUTS {
            for &flush in &FLUSHES {
                let this = idx;
                idx += 1;
                if seq.is_empty() {
                    if let Some(f) = first_filter {
                        if this != f {
                            continue;
                        }
                    }
                }
                let a = Action { chunk, out, flush };
                let mut st2 = Box::new(st.clone());
                let mut sp2 = spec.clone();
                seq.push(a);
                match ck.step(&mut st2, &mut sp2, a, false) {
                    Some(v) => {
                        rep.eval();
                        let s = ck.s;
                        let seqc = seq.clone();
                        report(rep, s, &seqc, v, ck);
                    }
                    None => {
                        let pr = st2.verif_probe();
                        wrapper_states.insert(format!("first_call={} has_flushed={} dict_avail>0={} last={:?}", pr.2, pr.3, pr.1 > 0, st2.last_status()));
                        if pr.1 > 0 {
                            rep.count("calls_returning_with_dict_avail");
                        }
                        dfs(rep, ck, &st2, &sp2, seq, depth, first_filter, wrapper_states);
                    }
                }
                seq.pop();
                if rep.violations.len() >= rep.max_violations {
                    return;
                }
            }
        }
    }
}

fn random_history(rep: &mut Report, rng: &mut Rng) {
    // bigger subjects, long histories, outputs > 32 KiB so the window wraps
    let zl = rng.bool();
    let class = *rng.pick(&[Class::Valid, Class::Valid, Class::Trailing, Class::Truncated, Class::Corrupt]);
    let n = rng.size_biased(150_000);
    let cls = rng.below(data::NUM_CLASSES);
    let p = data::gen(rng, cls, n);
    let mut bytes = if rng.bool() {
        let lvl = rng.below(11) as u8;
        if zl { miniz_oxide::deflate::compress_to_vec_zlib(&p, lvl) } else { miniz_oxide::deflate::compress_to_vec(&p, lvl) }
    } else {
        let mut o = grammar::GenOpts::large(zl);
        o.max_tokens = 5000;
        grammar::random_stream(rng, &o).bytes
    };
    match class {
        Class::Trailing => bytes.extend_from_slice(&rng.bytes(1 + rng.clone().below(40))),
        Class::Truncated => {
            let c = rng.below(bytes.len());
            bytes.truncate(c);
        }
        Class::Corrupt => {
            let (m, _) = faults::mutate(rng, &bytes, &[]);
            bytes = m;
        }
        _ => {}
    }
    let mut s = Subject::from_bytes(bytes, zl, class, format!("random {:?} zlib {}", class, zl));
    // classify by the reference decoder (mutants / truncations can still be valid or merely truncated)
    let rf = ref_inflate(&s.input, Opts::fmt(zl));
    s.class = match rf.verdict {
        Verdict::Complete { consumed, .. } if consumed == s.input.len() => Class::Valid,
        Verdict::Complete { .. } => Class::Trailing,
        Verdict::Truncated { .. } => Class::Truncated,
        Verdict::Invalid { .. } => Class::Corrupt,
    };
    // window-semantics differences between ring and flat make the class ambiguous: skip those
    let zeros = vec![0u8; 32768];
    let rr = ref_inflate(&s.input, Opts::fmt(zl).ring(&zeros, 0));
    if std::mem::discriminant(&rr.verdict) != std::mem::discriminant(&rf.verdict) {
        rep.count("random_subjects_skipped_window_dependent");
        return;
    }
    let mut ck = Checker { s: &s, out_buf: vec![0u8; 100_000] };
    let mut st = InflateState::new_boxed(if zl { DataFormat::Zlib } else { DataFormat::Raw });
    let mut spec = new_spec();
    let mut seq = Vec::new();
    let steps = 1 + rng.size_biased(4000);
    let finish_late = rng.chance(1, 3);
    for i in 0..steps {
        let flush = if spec.ever_finish {
            MZFlush::Finish
        } else if finish_late && i + 1 == steps {
            MZFlush::Finish
        } else {
            *rng.pick(&[MZFlush::None, MZFlush::None, MZFlush::Sync, MZFlush::Partial])
        };
        let a = Action { chunk: *rng.pick(&[0usize, 1, 2, 7, 100, 5000, usize::MAX]), out: *rng.pick(&[0usize, 1, 3, 100, 4096, 32768, 40000, 100_000]), flush };
        seq.push(a);
        rep.eval();
        rep.count("random_calls");
        if let Some(v) = ck.step(&mut st, &mut spec, a, false) {
            let seqc: Vec<Action> = seq.iter().rev().take(12).rev().cloned().collect();
            rep.violation(&v.0, format!("{} [{}; call {} of a random history]", v.1, s.desc, i + 1), Json::obj(vec![("stream", Json::s(&s.desc)), ("input_hex", Json::s(&hex_short(&s.input, 300))), ("last_actions", Json::Arr(seqc.iter().map(|a| Json::s(&format!("{:?}", a))).collect()))]));
            return;
        }
        if spec.ended || spec.data_err {
            break;
        }
    }
    if let Some(v) = ck.drain(&mut st, &mut spec, false) {
        rep.violation(&v.0, format!("{} [{}; drain of a random history of {} calls]", v.1, s.desc, seq.len()), Json::obj(vec![("stream", Json::s(&s.desc)), ("input_hex", Json::s(&hex_short(&s.input, 300)))]));
        return;
    }
    let mut h = Hasher::new();
    h.bytes(&s.input);
    for a in &seq {
        h.u64(a.chunk as u64).u64(a.out as u64).u64(a.flush as u64);
    }
    rep.nontrivial(h.finish());
}

pub fn run(ctx: &Ctx, rep: &mut Report) {
    let depth = if ctx.thorough() { 4 } else { 3 };
    // the 12 subjects are the same for every shard; work is split by (subject, first action)
    let mut srng = ctx.rng("subjects", 0);
    let subs = subjects(&mut srng);
    let n_enum = (subs.len() * 64) as u64;
    let n_rand = ctx.n(6000, 200_000);
    let mut wrapper_states = std::collections::BTreeSet::new();
    for k in ctx.cases(n_enum + n_rand) {
        rep.cur_case = k;
        crate::ctx::begin_case(k);
        if k < n_enum {
            let si = (k / 64) as usize;
            let first = (k % 64) as usize;
            let s = &subs[si];
            let mut ck = Checker { s, out_buf: vec![0u8; 100_000] };
            let st = InflateState::new_boxed(if s.zlib { DataFormat::Zlib } else { DataFormat::Raw });
            let spec = new_spec();
            let mut seq = Vec::new();
            let before = rep.get("sequences_enumerated");
            dfs(rep, &mut ck, &st, &spec, &mut seq, depth, Some(first), &mut wrapper_states);
            let n = rep.get("sequences_enumerated") - before;
            rep.count(&format!("subject_class_{:?}", s.class));
            if n > 0 {
                let mut h = Hasher::new();
                h.bytes(&s.input).u64(first as u64).u64(depth as u64);
                rep.nontrivial(h.finish());
            }
            if first == 21 {
                rep.sample(|| Json::obj(vec![("stream", Json::s(&s.desc)), ("input_hex", Json::s(&hex_short(&s.input, 200))), ("enumeration", Json::s(&format!("all action sequences of depth {} starting with action #{} over (chunk 0/1/2/rest) x (out 0/1/3/100000) x (None/Sync/Finish/Full), each followed by a legal drain", depth, first)))]));
            }
        } else {
            let mut rng = ctx.rng("random", k);
            random_history(rep, &mut rng);
        }
    }
    for w in wrapper_states {
        rep.set_insert("wrapper_states_seen", &w);
    }
    if ctx.only_case.is_none() && ctx.tier != crate::ctx::Tier::Tiny {
        rep.count("exhaustive_spaces");
        rep.gate("sequences_enumerated", (subs.len() as u64) * 64u64.pow(depth as u32 - 1) * 64 / 2);
    }
}
