//! C01 — one-shot compress/decompress is lossless for every input and level.

use crate::ctx::{catch, Ctx};
use crate::ffi::zlib::{self, ZResult};
use crate::gen::data;
use crate::refimpl::inflate::{inflate, Opts, Verdict};
use crate::report::{hex_short, Json, Report};
use crate::rng::Hasher;
use miniz_oxide::deflate::{compress_to_vec, compress_to_vec_zlib};
use miniz_oxide::inflate::{decompress_to_vec, decompress_to_vec_zlib};

#[derive(Clone, Debug)]
struct Case {
    size: usize,
    class: usize,
    level: u8,
    zlib: bool,
    boundary: bool,
}

fn case_list(ctx: &Ctx) -> Vec<Case> {
    let mut v = Vec::new();
    // A: sizes 0..=64 exhaustively x levels 0..=10 x fmt x 3 classes
    for size in 0..=64usize {
        for level in 0..=10u8 {
            for zl in [false, true] {
                for class in [6usize, 11, 2] {
                    v.push(Case { size, class, level, zlib: zl, boundary: false });
                }
            }
        }
    }
    // B: all 256 u8 levels on sizes <= 4 KiB
    for level in 0..=255u8 {
        for (j, size) in [37usize, 700, 3000, 4096].iter().enumerate() {
            v.push(Case { size: *size, class: 7 + j * 2, level, zlib: level % 2 == (j as u8 % 2), boundary: false });
        }
    }
    // C: boundary sizes and large sizes
    let mut big: Vec<usize> = data::boundary_sizes();
    big.extend_from_slice(&[98_304, 131_071, 131_072, 131_073, 200_000, 300_000]);
    if ctx.thorough() {
        big.extend_from_slice(&[1 << 20, 3 * 32768 + 7, 5 * 32768 + 1, 2 * 65536 + 3, 600_000]);
    }
    let per = if ctx.thorough() { 40 } else { 5 };
    for (si, &size) in big.iter().enumerate() {
        for j in 0..per {
            let mut r = ctx.rng("list", (si * 1000 + j) as u64);
            let level = if j == per - 1 { *r.pick(&[11u8, 12, 127, 128, 255]) } else { (j % 11) as u8 };
            v.push(Case { size, class: r.below(data::NUM_CLASSES), level, zlib: r.bool(), boundary: true });
        }
    }
    // C2: lazy-parsing stress inputs, several LZ-buffer fills long and poorly compressible (the
    // one-shot function then re-enters the compressor after growing its output vector)
    let nl = ctx.n(48, 2400);
    for j in 0..nl {
        let mut r = ctx.rng("listL", j);
        v.push(Case { size: 250_000 + r.below(450_000), class: 16, level: 4 + r.below(7) as u8, zlib: r.bool(), boundary: false });
    }
    // C3: repeats at the far edge of the window (distances within a few bytes of 32 KiB and of
    // 32 KiB - 258), first byte of the copy often differing only in a bit the hash drops
    let ne = ctx.n(1000, 20_000);
    for j in 0..ne {
        let mut r = ctx.rng("listE", j);
        v.push(Case { size: 34_000 + r.below(if j % 3 == 0 { 200_000 } else { 60_000 }), class: 17, level: (j % 11) as u8, zlib: r.bool(), boundary: false });
    }
    // C4: rare strings recurring exactly one 16-bit position period (65536) later in low-entropy
    // filler, lazy levels
    let np = ctx.n(200, 3000);
    for j in 0..np {
        let mut r = ctx.rng("listP", j);
        v.push(Case { size: 66_000 + r.below(if j % 3 == 0 { 200_000 } else { 30_000 }), class: 18, level: if j % 5 == 0 { (j % 11) as u8 } else { 4 + (j % 7) as u8 }, zlib: r.bool(), boundary: false });
    }
    // C5: level 1 (compress_fast) on inputs that fill its LZ code buffer at least once with a mix
    // of literals and sparse matches, so that the buffer-full / flag-byte edge is approached with
    // every residue of (code bytes used, codes in the current flag group)
    let nf = ctx.n(100, 3000);
    for j in 0..nf {
        let mut r = ctx.rng("listF", j);
        // match-dense classes: about every second code is a match, so that the code that meets the
        // edge is a 3-byte one as often as a 1-byte one
        v.push(Case { size: 150_000 + r.below(450_000), class: *r.pick(&[11usize, 11, 5, 15, 12, 7, 17]), level: 1, zlib: r.bool(), boundary: false });
    }
    // D: random mid sizes, all classes
    let n = ctx.n(8000, 200_000);
    for j in 0..n {
        let mut r = ctx.rng("listD", j);
        let size = if r.chance(1, 4) { r.range(65, 400) } else { r.size_biased(if ctx.thorough() { 400_000 } else { 120_000 }) };
        v.push(Case { size, class: r.below(data::NUM_CLASSES), level: r.below(11) as u8, zlib: r.bool(), boundary: false });
    }
    v
}

pub fn run(ctx: &Ctx, rep: &mut Report) {
    let list = case_list(ctx);
    rep.add("cases_planned", list.len() as u64);
    for k in ctx.cases(list.len() as u64) {
        rep.cur_case = k;
        crate::ctx::begin_case(k);
        let c = &list[k as usize];
        let mut rng = ctx.rng("case", k);
        let plain = data::gen(&mut rng, c.class, c.size);
        one(ctx, rep, c, &plain);
    }
}

fn one(_ctx: &Ctx, rep: &mut Report, c: &Case, plain: &[u8]) {
    rep.eval();
    let detail = |extra: Vec<(&str, Json)>| {
        let mut v = vec![
            ("size", Json::u(c.size)),
            ("class", Json::s(data::CLASS_NAMES[c.class % data::NUM_CLASSES])),
            ("level", Json::u(c.level as usize)),
            ("zlib", Json::Bool(c.zlib)),
            ("plain_hex", Json::s(&hex_short(plain, 256))),
        ];
        v.extend(extra);
        Json::obj(v)
    };
    let comp = match catch(|| if c.zlib { compress_to_vec_zlib(plain, c.level) } else { compress_to_vec(plain, c.level) }) {
        Ok(v) => v,
        Err(p) => {
            rep.violation(&format!("C01:panic:compress:{}", p.site_file()), format!("compress_to_vec panicked: {}", p.text), detail(vec![]));
            return;
        }
    };
    rep.add("bytes_plain", plain.len() as u64);
    rep.add("bytes_compressed", comp.len() as u64);
    rep.count(&format!("level_{}", if c.level > 10 { "gt10".to_string() } else { c.level.to_string() }));
    // (b) crate's matching one-shot decoder
    match catch(|| if c.zlib { decompress_to_vec_zlib(&comp) } else { decompress_to_vec(&comp) }) {
        Ok(Ok(out)) => {
            if out != plain {
                rep.violation("C01:roundtrip-mismatch", format!("decompress_to_vec returned {} bytes != input {} bytes", out.len(), plain.len()), detail(vec![("comp_hex", Json::s(&hex_short(&comp, 256)))]));
                return;
            }
        }
        Ok(Err(e)) => {
            rep.violation("C01:roundtrip-error", format!("decompress_to_vec failed with {:?} after {} bytes", e.status, e.output.len()), detail(vec![("comp_hex", Json::s(&hex_short(&comp, 256)))]));
            return;
        }
        Err(p) => {
            rep.violation(&format!("C01:panic:decompress:{}", p.site_file()), format!("decompress_to_vec panicked: {}", p.text), detail(vec![]));
            return;
        }
    }
    // (c) independent decoders
    let r = inflate(&comp, Opts::fmt(c.zlib));
    match r.verdict {
        Verdict::Complete { consumed, .. } if consumed == comp.len() && r.out == plain => {}
        v => {
            // consult zlib before blaming the compressor
            let z = zlib::inflate(&comp, if c.zlib { 15 } else { -15 }, 65536, usize::MAX);
            let z_ok = matches!(&z, ZResult::Ok(o, u) if o == plain && *u == comp.len());
            if z_ok {
                rep.inconclusive(format!("C01 case {}: refimpl says {:?} but zlib accepts — oracle disagreement", rep.cur_case, v));
            } else {
                rep.violation("C01:independent-decoder-rejects", format!("reference decoder: {:?} (consumed vs {} bytes); zlib agrees the stream is not the input", v, comp.len()), detail(vec![("comp_hex", Json::s(&hex_short(&comp, 256)))]));
            }
            return;
        }
    }
    if zlib::available() {
        match zlib::inflate(&comp, if c.zlib { 15 } else { -15 }, 65536, usize::MAX) {
            ZResult::Ok(o, u) if o == plain && u == comp.len() => rep.count("zlib_agrees"),
            other => {
                let what = match other {
                    ZResult::Ok(o, u) => format!("ok but {} bytes, used {}", o.len(), u),
                    ZResult::Err(code, u, _) => format!("error {} at {}", code, u),
                    ZResult::Truncated(u, _) => format!("truncated at {}", u),
                    ZResult::Absent => "absent".into(),
                };
                rep.violation("C01:zlib-rejects", format!("system zlib does not decode the output to the input: {}", what), detail(vec![("comp_hex", Json::s(&hex_short(&comp, 256)))]));
                return;
            }
        }
    }
    // (d) levels above 10 behave as 10
    if c.level > 10 {
        let ten = catch(|| if c.zlib { compress_to_vec_zlib(plain, 10) } else { compress_to_vec(plain, 10) });
        match ten {
            Ok(t) if t == comp => rep.count("gt10_equals_10"),
            Ok(_) => {
                rep.violation("C01:level-gt10-differs", format!("level {} output differs from level 10", c.level), detail(vec![]));
                return;
            }
            Err(p) => {
                rep.violation("C01:panic:compress", format!("level 10 panicked: {}", p.text), detail(vec![]));
                return;
            }
        }
    }
    // coverage from the reference trace
    if plain.len() > 32768 {
        rep.count("inputs_exceeding_one_window");
    }
    if r.blocks.len() >= 2 {
        rep.count("multi_block_outputs");
    }
    if c.level >= 1 && r.blocks.iter().any(|b| b.btype == 0 && b.out_start >= 32768) {
        rep.count("stored_fallback_with_wrapped_dictionary");
    }
    if r.stats.n_matches > 0 {
        rep.count("outputs_with_matches");
    }
    if plain.len() >= 259 || c.boundary {
        let mut h = Hasher::new();
        h.bytes(plain).u64(c.level as u64).u64(c.zlib as u64);
        rep.nontrivial(h.finish());
    }
    rep.sample(|| detail(vec![("compressed_len", Json::u(comp.len())), ("blocks", Json::u(r.blocks.len()))]));
}
