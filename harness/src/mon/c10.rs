//! C10 — compressor output is valid for independent decoders and honours level/strategy.

use super::c02::{gen_lzfill, run_one, Hist};
use super::comp::*;
use crate::ctx::Ctx;
use crate::gen::data;
use crate::refimpl::inflate::{Outcome, Token};
use crate::report::{Json, Report};
use crate::rng::Rng;
use miniz_oxide::deflate::core::{CompressionStrategy, TDEFLFlush};

/// Mode rules on the reference decoder's token trace, keyed on the requested configuration.
/// For window_bits < 12 `with_params` documents that it replaces the strategy by run-length
/// matching, so only the rules that survive that substitution are applied there.
pub fn mode_rules(rep: &mut Report, h: &Hist, o: &Outcome, det: &dyn Fn(&str) -> Json) {
    let cfg = &h.cfg;
    let st = &o.stats;
    let strategy_kept = cfg.wbits >= 12;
    rep.count("mode_rule_evaluations");
    let mut vio = |rep: &mut Report, rule: &str, msg: String| {
        rep.violation(&format!("C10:mode:{}:{}", rule, cfg_class(cfg)), format!("{} ({})", msg, cfg.describe()), det(rule));
    };
    if cfg.level == 0 {
        // blocks that carry data must be stored blocks; an *empty* fixed block is the marker a
        // Partial flush explicitly asks for and is not counted
        let bad = o.blocks.iter().filter(|b| b.btype != 0 && b.out_end > b.out_start).count();
        if bad > 0 {
            vio(rep, "level0-stored-only", format!("level 0 emitted {} Huffman-coded blocks carrying data", bad));
        }
        return;
    }
    if cfg.strategy == CompressionStrategy::HuffmanOnly && st.n_matches > 0 {
        vio(rep, "huffman-only-no-matches", format!("HuffmanOnly emitted {} matches (e.g. max distance {})", st.n_matches, st.max_dist));
    }
    if cfg.strategy == CompressionStrategy::RLE && st.non_dist1 > 0 {
        let ex = o.tokens.iter().find_map(|t| match t {
            Token::Match { len, dist } if *dist != 1 => Some((*len, *dist)),
            _ => None,
        });
        vio(rep, "rle-distance-1-only", format!("run-length mode emitted {} matches with distance != 1 (first: {:?}, max distance {})", st.non_dist1, ex, st.max_dist));
    }
    if strategy_kept {
        if cfg.strategy == CompressionStrategy::Fixed && st.blocks_by_type[2] > 0 {
            vio(rep, "fixed-no-dynamic-blocks", format!("Fixed strategy emitted {} dynamic blocks", st.blocks_by_type[2]));
        }
        if cfg.strategy == CompressionStrategy::Filtered && st.n_matches > 0 && st.min_match_len < 5 {
            vio(rep, "filtered-min-match-5", format!("Filtered strategy emitted a match of length {}", st.min_match_len));
        }
    }
    // structural facts recorded as evidence
    rep.max(&format!("max_distance_level{}", cfg.level), st.max_dist as f64, &cfg.describe());
    rep.max("max_match_len", st.max_match_len as f64, &cfg.describe());
    rep.add("blocks_stored", st.blocks_by_type[0] as u64);
    rep.add("blocks_fixed", st.blocks_by_type[1] as u64);
    rep.add("blocks_dynamic", st.blocks_by_type[2] as u64);
    rep.add("tokens_literals", st.n_lits);
    rep.add("tokens_matches", st.n_matches);
}

fn cfg_class(c: &Config) -> String {
    format!("level{}:{:?}:w{}", if c.level <= 1 { c.level.to_string() } else { "2+".into() }, c.strategy, if c.wbits == 15 { "15" } else if c.wbits >= 12 { "12-14" } else { "8-11" })
}

fn redundancy(rep: &mut Report, rng: &mut Rng, k: u64) {
    let level = 1 + (k % 10) as u8;
    let strategy = [CompressionStrategy::Default, CompressionStrategy::Filtered, CompressionStrategy::Fixed][((k / 10) % 3) as usize];
    let xl = *rng.pick(&[1024usize, 2048, 4096, 8192, 16384]) + rng.below(64);
    let x = rng.bytes(xl);
    let mut plain = x.clone();
    plain.extend_from_slice(&x);
    let cfg = Config { level, strategy, zlib: rng.bool(), wbits: 15 };
    // no flush requests here: a full flush deliberately forgets the history the test relies on
    let steps = if rng.bool() {
        vec![CStep { chunk: plain.len(), out_len: 200_000, flush: TDEFLFlush::Finish }]
    } else {
        let mut v = Vec::new();
        let mut left = plain.len();
        while left > 0 {
            let c = (1 + rng.size_biased(6000)).min(left);
            v.push(CStep { chunk: c, out_len: *rng.pick(&[1usize, 100, 4096, 200_000]), flush: TDEFLFlush::None });
            left -= c;
        }
        v
    };
    let h = Hist { cfg, api: Api::Compress, plain, class: 9, steps, tail_out: 200_000, family: "redundancy_x_x" };
    if let Some((run, _o)) = run_one("C10", rep, &h) {
        let ratio = run.out.len() as f64 / h.plain.len() as f64;
        rep.count("redundancy_cases");
        rep.max("worst_x_x_ratio", ratio, &format!("{} |X|={}", cfg.describe(), xl));
        if ratio >= 0.75 {
            rep.violation(&format!("C10:redundancy-not-exploited:level{}:{:?}", if level == 1 { "1".to_string() } else { "2+".into() }, strategy), format!("X ++ X with |X| = {} random bytes compressed to {:.3} of its size ({})", xl, ratio, cfg.describe()), history_detail(&h.cfg, h.api, &h.plain, &h.steps, &run, "redundancy"));
        }
    }
}

/// One long-lived compressor emitting thousands of flushed dynamic blocks in a single stream (a
/// short message repeated, Full - sometimes Sync - flush after every copy): per-block statistics
/// that are wrongly carried from block to block (16-bit counters!) only go wrong after many
/// blocks.
fn many_blocks(rng: &mut Rng, quick: bool) -> Hist {
    let cfg = Config { level: 1 + rng.below(9) as u8, strategy: *rng.pick(&[CompressionStrategy::Default, CompressionStrategy::Default, CompressionStrategy::Filtered, CompressionStrategy::HuffmanOnly, CompressionStrategy::RLE]), zlib: rng.bool(), wbits: 15 };
    let class = *rng.pick(&[6usize, 6, 6, 11, 5, 13]);
    let mlen = 300 + rng.below(1300);
    // class 6 here: a skewed distribution over all 256 byte values (product of two uniform
    // draws), which gives irregular code lengths and a long code-length sequence per block
    let msg: Vec<u8> = if class == 6 { (0..mlen).map(|_| ((rng.below(256) * rng.below(256)) >> 8) as u8).collect() } else { data::gen(rng, class, mlen) };
    let copies = if rng.chance(1, 5) { 8200 + rng.below(200) } else if quick { 1100 + rng.below(3200) } else { 1100 + rng.below(7400) };
    let mut plain = Vec::with_capacity(mlen * copies);
    let flush = if rng.chance(1, 5) { TDEFLFlush::Sync } else { TDEFLFlush::Full };
    let mut steps = Vec::with_capacity(copies + 1);
    for _ in 0..copies {
        plain.extend_from_slice(&msg);
        steps.push(CStep { chunk: mlen, out_len: 200_000, flush });
    }
    let api = if rng.chance(1, 4) { Api::Deflate } else { Api::Compress };
    Hist { cfg, api, plain, class, steps, tail_out: 4096, family: "thousands_of_flushed_blocks" }
}

pub fn run(ctx: &Ctx, rep: &mut Report) {
    let rounds = ctx.n(30, 400);
    let n_cfg = 880 * rounds;
    let n_red = ctx.n(900, 48_000);
    let n_fill = ctx.n(64, 3000);
    let n_many = ctx.n(32, 600);
    for k in ctx.cases(n_cfg + n_red + n_fill + n_many) {
        rep.cur_case = k;
        crate::ctx::begin_case(k);
        let mut rng = ctx.rng("case", k);
        if k < n_cfg {
            let cfg = Config::nth(k);
            let (plain, class) = if rng.chance(1, 5) {
                // text-like and run-heavy data make the mode rules bite
                let cls = *rng.pick(&[11usize, 13, 2, 5, 9, 16]);
                let n = 200 + rng.size_biased(150_000);
                (data::gen(&mut rng, cls, n), cls)
            } else {
                gen_plain(&mut rng, if ctx.thorough() { 300_000 } else { 100_000 })
            };
            let api = *rng.pick(&[Api::Compress, Api::Compress, Api::CompressToOutput, Api::Deflate]);
            let fam = *rng.pick(&[5usize, 5, 7, 3, 1]);
            let (steps, tail_out, family) = gen_schedule(&mut rng, plain.len(), api, fam);
            let h = Hist { cfg, api, plain, class, steps, tail_out: tail_out.max(64), family };
            if let Some((run, o)) = run_one("C10", rep, &h) {
                let det = |note: &str| history_detail(&h.cfg, h.api, &h.plain, &h.steps, &run, note);
                mode_rules(rep, &h, &o, &det);
                if o.stats.n_matches > 0 || o.blocks.len() >= 2 {
                    let mut hs = crate::rng::Hasher::new();
                    hs.bytes(&run.out).u64(cfg.index());
                    rep.nontrivial(hs.finish());
                }
            }
        } else if k < n_cfg + n_red {
            redundancy(rep, &mut rng, k - n_cfg);
        } else if k < n_cfg + n_red + n_fill {
            let h = gen_lzfill(&mut rng);
            if let Some((run, o)) = run_one("C10", rep, &h) {
                let det = |note: &str| history_detail(&h.cfg, h.api, &h.plain, &h.steps, &run, note);
                mode_rules(rep, &h, &o, &det);
            }
        } else {
            let h = many_blocks(&mut rng, ctx.quick());
            if let Some((run, o)) = run_one("C10", rep, &h) {
                let det = |note: &str| history_detail(&h.cfg, h.api, &h.plain, &h.steps, &run, note);
                mode_rules(rep, &h, &o, &det);
                rep.max("max_blocks_in_one_stream", o.blocks.len() as f64, &h.cfg.describe());
                let mut hs = crate::rng::Hasher::new();
                hs.bytes(&run.out).u64(h.cfg.index());
                rep.nontrivial(hs.finish());
            }
        }
    }
}
