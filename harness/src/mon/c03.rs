//! C03 — every valid DEFLATE/zlib stream decodes to exactly its plaintext, through every
//! decoder entry point.

use super::common::*;
use crate::ctx::{catch, Ctx};
use crate::ffi::zlib;
use crate::gen::{data, grammar};
use crate::refimpl::inflate::{inflate as ref_inflate, Opts, Verdict};
use crate::report::{hex_short, Json, Report};
use crate::rng::{Hasher, Rng};
use miniz_oxide::inflate::core::DecompressorOxide;
use miniz_oxide::inflate::stream::{inflate, InflateState};
use miniz_oxide::inflate::{
    decompress_slice_iter_to_slice, decompress_to_vec, decompress_to_vec_with_limit, decompress_to_vec_zlib,
    decompress_to_vec_zlib_with_limit, TINFLStatus,
};
use miniz_oxide::{MZFlush, MZStatus};

pub struct Stream {
    pub bytes: Vec<u8>,
    pub plain: Vec<u8>,
    pub zlib: bool,
    pub source: &'static str,
    pub desc: String,
}

fn detail(s: &Stream, entry: &str, extra: String) -> Json {
    Json::obj(vec![
        ("source", Json::s(s.source)),
        ("desc", Json::s(&s.desc)),
        ("zlib", Json::Bool(s.zlib)),
        ("entry_point", Json::s(entry)),
        ("stream_len", Json::u(s.bytes.len())),
        ("plain_len", Json::u(s.plain.len())),
        ("stream_hex", Json::s(&hex_short(&s.bytes, 400))),
        ("observed", Json::s(&extra)),
    ])
}

/// Push one valid stream through every entry point; returns false if any violated.
pub fn check_all_entry_points(prop: &str, rep: &mut Report, s: &Stream, rng: &mut Rng) -> bool {
    let mut ok = true;
    let vio = |rep: &mut Report, entry: &str, what: String| {
        rep.violation(&format!("{}:{}:{}", prop, entry, what.split(':').next().unwrap_or("")), format!("{} on valid stream from {}: {}", entry, s.source, what), detail(s, entry, what.clone()));
    };
    let n = s.plain.len();
    // 1. vector functions
    for limited in [false, true] {
        let entry = if limited { "to_vec_with_limit" } else { "to_vec" };
        let r = catch(|| match (s.zlib, limited) {
            (false, false) => decompress_to_vec(&s.bytes),
            (true, false) => decompress_to_vec_zlib(&s.bytes),
            (false, true) => decompress_to_vec_with_limit(&s.bytes, n + 1 + (n / 3)),
            (true, true) => decompress_to_vec_zlib_with_limit(&s.bytes, n + 1 + (n / 3)),
        });
        rep.count(&format!("entry_{}", entry));
        match r {
            Ok(Ok(out)) if out == s.plain => {}
            Ok(Ok(out)) => {
                ok = false;
                vio(rep, entry, format!("wrong-output: {} bytes, first diff at {:?}", out.len(), first_diff(&out, &s.plain)));
            }
            Ok(Err(e)) => {
                ok = false;
                vio(rep, entry, format!("error: status {} after {} bytes", st_name(e.status), e.output.len()));
            }
            Err(p) => {
                ok = false;
                vio(rep, entry, format!("panic: {}", p.text));
            }
        }
    }
    let base = if s.zlib { F_ZLIB } else { 0 };
    // 2. core flat one-shot, exact-size and roomy buffers
    for extra in [0usize, 1, 300] {
        let mut d = DecompressorOxide::new();
        let run = drive_core(&mut d, &s.bytes, base, &BufMode::Flat(n + extra), &[s.bytes.len()], &[], None);
        rep.count("entry_core_flat");
        if !core_ok(&run, s) {
            ok = false;
            vio(rep, "core_flat", format!("{}: status {} consumed {} of {} out {} of {} (cap +{}) {}", run_kind(&run, s), st_name(run.status), run.consumed, s.bytes.len(), run.out.len(), n, extra, run.tail(3)));
        }
    }
    // 3. core ring 32 KiB
    {
        let mut d = DecompressorOxide::new();
        let run = drive_core(&mut d, &s.bytes, base, &BufMode::Ring(32768), &[s.bytes.len()], &[], None);
        rep.count("entry_core_ring32k");
        if !core_ok(&run, s) {
            ok = false;
            vio(rep, "core_ring32k", format!("{}: status {} consumed {} of {} out {} of {} {}", run_kind(&run, s), st_name(run.status), run.consumed, s.bytes.len(), run.out.len(), n, run.tail(3)));
        }
    }
    // 3b. core flat with random chunking (HAS_MORE_INPUT path), one spare byte
    {
        let mut d = DecompressorOxide::new();
        let chunk = 1 + rng.below(40);
        let lens = Chunking::Fixed(chunk).lens(s.bytes.len());
        let run = drive_core(&mut d, &s.bytes, base, &BufMode::Flat(n + 1), &lens, &[], None);
        rep.count("entry_core_flat_chunked");
        if !core_ok(&run, s) {
            ok = false;
            vio(rep, "core_flat_chunked", format!("{}: chunk {} status {} consumed {} of {} out {} of {} {}", run_kind(&run, s), chunk, st_name(run.status), run.consumed, s.bytes.len(), run.out.len(), n, run.tail(3)));
        }
    }
    // 4. slice iterator helper: one slice (exact buffer); several slices (+1 spare byte)
    {
        let mut out = vec![0u8; n];
        let r = catch(|| decompress_slice_iter_to_slice(&mut out, std::iter::once(&s.bytes[..]), s.zlib, false));
        rep.count("entry_slice_iter_one");
        match r {
            Ok(Ok(w)) if w == n && out == s.plain => {}
            Ok(x) => {
                ok = false;
                vio(rep, "slice_iter_one", format!("result: {:?}", x.map_err(st_name)));
            }
            Err(p) => {
                ok = false;
                vio(rep, "slice_iter_one", format!("panic: {}", p.text));
            }
        }
        let chunk = 1 + rng.below(64);
        let mut out = vec![0u8; n + 1];
        let r = catch(|| decompress_slice_iter_to_slice(&mut out, s.bytes.chunks(chunk), s.zlib, false));
        rep.count("entry_slice_iter_many");
        match r {
            Ok(Ok(w)) if w == n && out[..n] == s.plain[..] => {}
            Ok(x) => {
                ok = false;
                vio(rep, "slice_iter_many", format!("result: chunk {} -> {:?}", chunk, x.map_err(st_name)));
            }
            Err(p) => {
                ok = false;
                vio(rep, "slice_iter_many", format!("panic: {}", p.text));
            }
        }
    }
    // 5. streaming wrapper: None loop; first-call Finish into a large buffer
    {
        let mut st = InflateState::new_boxed(fmt_of(s.zlib));
        let in_chunk = *rng.pick(&[1usize, 7, 64, 1000, usize::MAX / 2]);
        let out_chunk = *rng.pick(&[1usize, 5, 100, 4096, 40000, 70000]);
        let run = drive_inflate(&mut st, &s.bytes, in_chunk.min(s.bytes.len().max(1)), out_chunk, false);
        rep.count("entry_inflate_loop");
        let good = run.panic.is_none() && !run.stalled && run.last == Ok(MZStatus::StreamEnd) && run.out == s.plain && run.consumed == s.bytes.len();
        if !good {
            ok = false;
            vio(rep, "inflate_loop", format!("{}: in_chunk {} out_chunk {} last {} consumed {} of {} out {} of {} calls {}", if run.panic.is_some() { "panic" } else if run.stalled { "stalled" } else { "wrong" }, in_chunk, out_chunk, mz_name(&run.last), run.consumed, s.bytes.len(), run.out.len(), n, run.calls) + &run.panic.map(|p| p.text).unwrap_or_default());
        }
        let mut st = InflateState::new_boxed(fmt_of(s.zlib));
        let mut out = vec![0u8; n + rng.below(3)];
        let r = catch(|| inflate(&mut st, &s.bytes, &mut out, MZFlush::Finish));
        rep.count("entry_inflate_first_finish");
        match r {
            Ok(r) if r.status == Ok(MZStatus::StreamEnd) && r.bytes_written == n && r.bytes_consumed == s.bytes.len() && out[..n] == s.plain[..] => {}
            Ok(r) => {
                ok = false;
                vio(rep, "inflate_first_finish", format!("result: {} consumed {} written {}", mz_name(&r.status), r.bytes_consumed, r.bytes_written));
            }
            Err(p) => {
                ok = false;
                vio(rep, "inflate_first_finish", format!("panic: {}", p.text));
            }
        }
    }
    ok
}

fn run_kind(run: &DecRun, s: &Stream) -> &'static str {
    if run.panic.is_some() {
        "panic"
    } else if run.stalled {
        "stalled"
    } else if run.status != TINFLStatus::Done {
        "not-done"
    } else if run.out != s.plain {
        "wrong-output"
    } else {
        "wrong-consumed"
    }
}

fn core_ok(run: &DecRun, s: &Stream) -> bool {
    run.panic.is_none() && !run.stalled && run.status == TINFLStatus::Done && run.out == s.plain && run.consumed == s.bytes.len()
}

pub fn first_diff(a: &[u8], b: &[u8]) -> Option<usize> {
    a.iter().zip(b.iter()).position(|(x, y)| x != y).or(if a.len() != b.len() { Some(a.len().min(b.len())) } else { None })
}

/// Record construct flags of a valid stream (from the reference trace only).
fn constructs(rep: &mut Report, bytes: &[u8], zl: bool) -> (bool, u64) {
    let r = ref_inflate(bytes, Opts::fmt(zl));
    let st = &r.stats;
    let mut flagged = false;
    let mut h = Hasher::new();
    for (name, on) in [
        (format!("c_maxlen_litlen_{}", st.max_len_litlen), st.max_len_litlen >= 11),
        (format!("c_maxlen_dist_{}", st.max_len_dist), st.max_len_dist >= 11),
        ("c_one_symbol_litlen".to_string(), st.one_symbol_litlen > 0),
        ("c_one_symbol_dist".to_string(), st.one_symbol_dist > 0),
        ("c_empty_dist_set".to_string(), st.empty_dist > 0),
        ("c_empty_block".to_string(), st.empty_blocks > 0),
        ("c_boundary_crossing_run".to_string(), st.boundary_crossing_runs > 0),
        ("c_len258".to_string(), st.len258 > 0),
        ("c_dist32768".to_string(), st.dist32768 > 0),
        ("c_overlap".to_string(), st.overlaps > 0),
        ("c_dynamic_block".to_string(), st.blocks_by_type[2] > 0),
        ("c_fixed_block".to_string(), st.blocks_by_type[1] > 0),
        ("c_multi_block".to_string(), r.blocks.len() > 1),
    ] {
        if on {
            rep.count(&name);
            flagged = true;
        }
    }
    for a in 0..8 {
        if st.stored_at_align[a] > 0 {
            rep.count(&format!("c_stored_at_bit_{}", a));
            flagged = true;
        }
    }
    h.bytes(bytes);
    (flagged, h.finish())
}

/// Feed the stream in tiny input chunks with tiny output budgets and record which automaton
/// states the decoder was observed suspended in (hook). Coverage evidence only.
fn observe_states(rep: &mut Report, s: &Stream, rng: &mut Rng) {
    if s.bytes.len() > 3000 || s.plain.len() > 20000 {
        return;
    }
    let base = if s.zlib { F_ZLIB } else { 0 };
    let ic = 1 + rng.below(3);
    let budgets: Vec<usize> = (0..7).map(|_| 1 + rng.below(3)).collect();
    let mut d = DecompressorOxide::new();
    let lens = Chunking::Fixed(ic).lens(s.bytes.len());
    let run = drive_core(&mut d, &s.bytes, base, &BufMode::Flat(s.plain.len() + 1), &lens, &budgets, None);
    for c in &run.calls {
        rep.set_insert("states_seen_at_suspension", state_name(c.state_after));
    }
    rep.count("state_observation_runs");
    if !core_ok(&run, s) {
        rep.violation("C03:core_flat_tiny_steps", format!("tiny-step schedule (in {} / budgets {:?}) did not reproduce the plaintext: status {} consumed {} out {} {}", ic, budgets, st_name(run.status), run.consumed, run.out.len(), run.tail(4)), detail(s, "core_flat_tiny_steps", String::new()));
    }
}

pub fn gen_stream(rng: &mut Rng, k: u64) -> Stream {
    let zl = rng.bool();
    let mut o = match k % 4 {
        0 => grammar::GenOpts::small(zl),
        1 | 2 => grammar::GenOpts::medium(zl),
        _ => grammar::GenOpts::large(zl),
    };
    if k % 4 == 3 {
        o.max_tokens = 6000;
    }
    if k % 2 == 1 {
        o.force_shape = Some(grammar::Shape::Skewed);
    }
    o.random_header = rng.chance(1, 3);
    let g = grammar::random_stream(rng, &o);
    Stream { desc: format!("G#{} blocks={}", k, g.blocks.len()), bytes: g.bytes, plain: g.plain, zlib: zl, source: "grammar" }
}

pub fn own_stream(rng: &mut Rng) -> Stream {
    let n = rng.size_biased(120_000);
    let cls = rng.below(data::NUM_CLASSES);
    let plain = data::gen(rng, cls, n);
    let level = rng.below(11) as u8;
    let zl = rng.bool();
    let bytes = if zl { miniz_oxide::deflate::compress_to_vec_zlib(&plain, level) } else { miniz_oxide::deflate::compress_to_vec(&plain, level) };
    Stream { desc: format!("M level={} class={} n={}", level, data::CLASS_NAMES[cls], n), bytes, plain, zlib: zl, source: "miniz" }
}

pub fn zlib_stream(rng: &mut Rng) -> Option<Stream> {
    if !zlib::available() {
        return None;
    }
    let n = rng.size_biased(150_000);
    let cls = rng.below(data::NUM_CLASSES);
    let plain = data::gen(rng, cls, n);
    let level = rng.below(10) as i32;
    let strat = rng.below(5) as i32;
    let mem = rng.range(1, 9) as i32;
    let wb = rng.range(9, 15) as i32;
    let zl = rng.bool();
    let (fe, fk) = if rng.chance(1, 3) { (1 + rng.size_biased(5000), *rng.pick(&[1, 2, 3, 5])) } else { (0, 0) };
    let bytes = zlib::deflate(&plain, level, if zl { wb } else { -wb }, mem, strat, fe, fk)?;
    Some(Stream { desc: format!("Z level={} strat={} mem={} wbits={} flush_every={} kind={} class={} n={}", level, strat, mem, wb, fe, fk, data::CLASS_NAMES[cls], n), bytes, plain, zlib: zl, source: "zlib" })
}

pub fn file_streams() -> Vec<Stream> {
    let mut v = Vec::new();
    let repo = std::env::var("VERIF_REPO").unwrap_or_else(|_| "/repo".to_string());
    let dir = format!("{}/miniz_oxide/tests/test_data", repo);
    if let Ok(rd) = std::fs::read_dir(&dir) {
        let mut names: Vec<_> = rd.filter_map(|e| e.ok()).map(|e| e.path()).collect();
        names.sort();
        for p in names {
            if let Ok(b) = std::fs::read(&p) {
                for zl in [false, true] {
                    let r = ref_inflate(&b, Opts::fmt(zl));
                    if let Verdict::Complete { consumed, .. } = r.verdict {
                        if consumed == b.len() && r.out.len() < 8_000_000 {
                            v.push(Stream { desc: format!("file {}", p.display()), bytes: b.clone(), plain: r.out, zlib: zl, source: "file" });
                        }
                    }
                }
            }
        }
    }
    if let Ok(src) = std::fs::read(format!("{}/miniz/miniz.c", repo)) {
        if zlib::available() {
            for lvl in [1, 6, 9] {
                if let Some(z) = zlib::deflate(&src, lvl, 15, 8, 0, 0, 0) {
                    v.push(Stream { desc: format!("miniz.c via zlib level {}", lvl), bytes: z, plain: src.clone(), zlib: true, source: "file" });
                }
            }
        }
    }
    v
}

pub fn run(ctx: &Ctx, rep: &mut Report) {
    let n_g = ctx.n(5000, 200_000);
    let n_m = ctx.n(800, 8000);
    let n_z = ctx.n(1000, 20_000);
    for k in ctx.cases(n_g + n_m + n_z + 1) {
        rep.cur_case = k;
        crate::ctx::begin_case(k);
        let mut rng = ctx.rng("case", k);
        let streams: Vec<Stream> = if k < n_g {
            vec![gen_stream(&mut rng, k)]
        } else if k < n_g + n_m {
            vec![own_stream(&mut rng)]
        } else if k < n_g + n_m + n_z {
            zlib_stream(&mut rng).into_iter().collect()
        } else {
            file_streams()
        };
        for s in streams {
            rep.eval();
            rep.count(&format!("source_{}", s.source));
            // three-way agreement of the oracles first (construction / refimpl / zlib)
            let r = ref_inflate(&s.bytes, Opts::fmt(s.zlib));
            let ref_ok = matches!(r.verdict, Verdict::Complete { consumed, .. } if consumed == s.bytes.len()) && r.out == s.plain;
            if !ref_ok {
                rep.inconclusive(format!("case {}: reference decoder disagrees with construction ({:?}) — harness bug", k, r.verdict));
                continue;
            }
            let (flagged, hsh) = constructs(rep, &s.bytes, s.zlib);
            let ok = check_all_entry_points("C03", rep, &s, &mut rng);
            observe_states(rep, &s, &mut rng);
            if flagged {
                rep.nontrivial(hsh);
            }
            if ok && flagged {
                rep.sample(|| {
                    Json::obj(vec![
                        ("source", Json::s(s.source)),
                        ("desc", Json::s(&s.desc)),
                        ("zlib", Json::Bool(s.zlib)),
                        ("stream_hex", Json::s(&hex_short(&s.bytes, 200))),
                        ("plain_len", Json::u(s.plain.len())),
                        ("entry_points", Json::s("to_vec, to_vec_with_limit, core flat (exact,+1,+300), core ring 32K, core flat chunked, slice_iter (one, many+1), inflate loop, inflate first-call Finish")),
                    ])
                });
            }
        }
    }
    // gates (computed from the harness' own reference trace)
    let need = if ctx.thorough() { 1000 } else { 20 };
    for g in [
        "c_maxlen_litlen_11", "c_maxlen_litlen_12", "c_maxlen_litlen_13", "c_maxlen_litlen_14", "c_maxlen_litlen_15",
        "c_maxlen_dist_11", "c_maxlen_dist_15", "c_one_symbol_litlen", "c_one_symbol_dist", "c_empty_block",
        "c_boundary_crossing_run", "c_len258", "c_dist32768", "c_overlap",
        "c_stored_at_bit_0", "c_stored_at_bit_1", "c_stored_at_bit_2", "c_stored_at_bit_3", "c_stored_at_bit_4",
        "c_stored_at_bit_5", "c_stored_at_bit_6", "c_stored_at_bit_7",
    ] {
        if ctx.only_case.is_none() && ctx.tier != crate::ctx::Tier::Tiny {
            rep.gate(g, need);
        }
    }
}
