//! C15 — the advertised compression bound really bounds one-shot output.

use crate::ctx::{catch, Ctx};
use crate::ffi::guard::Guarded;
use crate::report::{hex_short, Json, Report};
use crate::rng::{Hasher, Rng};
use miniz_oxide_c_api::{mz_compress2, mz_compressBound, mz_deflate, mz_deflateBound, mz_deflateEnd, mz_deflateInit2, mz_stream};

const CLASSES: [&str; 7] = ["uniform_random", "sparse_3byte_matches", "alphabet200", "random_then_zeros", "high_bytes_144_255", "zeros", "text"];

fn content(rng: &mut Rng, class: usize, n: usize) -> Vec<u8> {
    match class {
        0 => rng.bytes(n),
        1 => {
            // random with sparse 3-byte matches: LZ codes stay just below the "fat" threshold
            let every = *rng.pick(&[20usize, 40, 64, 100, 200]);
            crate::gen::data::sparse(rng, n, 1, 30000, every, 3)
        }
        2 => (0..n).map(|_| rng.below(200) as u8).collect(),
        3 => {
            let a = rng.below(n + 1);
            let mut v = rng.bytes(a);
            v.resize(n, 0);
            v
        }
        4 => (0..n).map(|_| 144 + rng.below(112) as u8).collect(),
        5 => vec![0u8; n],
        _ => crate::gen::data::text(rng, n),
    }
}

fn thresholds(thorough: bool) -> Vec<usize> {
    let mut v: Vec<usize> = Vec::new();
    for &b in &[31_744usize, 32_768, 58_000, 60_000, 63_000, 65_535, 65_536, 85_196, 126_976, 131_072, 2 * 31_744, 3 * 31_744, 4 * 31_744, 32_769, 39_800, 65_538, 98_307] {
        for d in [-2i64, -1, 0, 1, 2] {
            v.push((b as i64 + d) as usize);
        }
    }
    v.extend_from_slice(&[400, 1000, 5000, 20_000, 200_000, 500_000, 1 << 20, 4 << 20]);
    if thorough {
        v.extend_from_slice(&[2 << 20, 8 << 20, 16 << 20]);
    }
    v
}

fn one(rep: &mut Report, data: &[u8], class: usize, level: i32, strategy: i32) {
    let n = data.len();
    let bound = mz_compressBound(n as _) as usize;
    let bound2 = mz_deflateBound(std::ptr::null_mut(), n as _) as usize;
    let cfg = format!("n {} class {} level {} strategy {}", n, CLASSES[class], level, strategy);
    let det = |what: &str| Json::obj(vec![("case", Json::s(&cfg)), ("bound", Json::u(bound)), ("data_hex", Json::s(&hex_short(data, 64))), ("what", Json::s(what))]);
    rep.eval();
    if bound != bound2 {
        rep.violation("C15:bounds-disagree", format!("mz_compressBound {} != mz_deflateBound {}", bound, bound2), det(""));
        return;
    }
    let src = Guarded::from_slice(data, true);
    let mut produced = None;
    if strategy == 0 {
        // the one-call C function with a destination of exactly the advertised size
        let dest = Guarded::new(bound, true);
        let mut dest_len = bound as libc::c_ulong;
        let rc = match catch(|| unsafe { mz_compress2(dest.ptr(), &mut dest_len, src.ptr(), n as _, level) }) {
            Ok(rc) => rc,
            Err(p) => {
                rep.violation("C15:panic:mz_compress2", p.text, det(""));
                return;
            }
        };
        rep.count("mz_compress2_calls");
        if rc != 0 {
            rep.violation(&format!("C15:mz_compress2-failed:rc{}", rc), format!("mz_compress2 with a destination of mz_compressBound(n) = {} bytes returned {} ({})", bound, rc, cfg), det(""));
            return;
        }
        produced = Some(dest_len as usize);
    }
    // streaming API, one finishing call, any strategy
    {
        let dest = Guarded::new(bound, true);
        let mut s = mz_stream::default();
        let rc = unsafe { mz_deflateInit2(&mut s, level, 8, 15, 9, strategy) };
        if rc != 0 {
            rep.violation("C15:init-failed", format!("mz_deflateInit2 returned {} ({})", rc, cfg), det(""));
            return;
        }
        s.next_in = src.ptr();
        s.avail_in = n as u32;
        s.next_out = dest.ptr();
        s.avail_out = bound as u32;
        let rc = match catch(|| unsafe { mz_deflate(&mut s, 4) }) {
            Ok(rc) => rc,
            Err(p) => {
                rep.violation("C15:panic:mz_deflate", p.text, det(""));
                return;
            }
        };
        rep.count("mz_deflate_finish_calls");
        let total_out = s.total_out as usize;
        unsafe { mz_deflateEnd(&mut s) };
        if rc != 1 {
            rep.violation(
                &format!("C15:bound-too-small:strategy{}:{}", strategy, if level <= 1 { format!("level{}", level) } else { "level2+".into() }),
                format!("mz_deflate(MZ_FINISH) into mz_deflateBound(n) = {} bytes returned {} after writing {} bytes: the output does not fit the advertised bound ({})", bound, rc, total_out, cfg),
                det("streaming"),
            );
            return;
        }
        if let Some(p) = produced {
            if p != total_out {
                rep.note(format!("mz_compress2 produced {} but mz_deflate {} for {}", p, total_out, cfg));
            }
        }
        produced = Some(total_out);
    }
    let p = produced.unwrap();
    let slack = bound as f64 - p as f64;
    rep.min("min_slack_bytes", slack, &cfg);
    if n > 0 {
        rep.max("max_expansion_ratio", p as f64 / n as f64, &cfg);
    }
    if class != 5 && class != 6 && n > 300 {
        let mut h = Hasher::new();
        h.bytes(data).u64(level as u64 as u64).u64(strategy as u64);
        rep.nontrivial(h.finish());
        rep.sample(|| Json::obj(vec![("case", Json::s(&cfg)), ("bound", Json::u(bound)), ("produced", Json::u(p))]));
    }
}

pub fn run(ctx: &Ctx, rep: &mut Report) {
    // A: n = 0..=300 exhaustively x levels -1..=10 x 4 content classes (default strategy)
    let n_small = 301u64;
    // B: thresholds x classes x levels x strategies (sampled)
    let th = thresholds(ctx.thorough());
    let n_b = th.len() as u64 * ctx.n(6, 60);
    // C: random sizes
    let n_c = ctx.n(5000, 60_000);
    // D: deterministic grid: all levels x all strategies x the two nastiest classes x sizes
    // beyond one window (blocks larger than the dictionary lose the stored-block fallback)
    let grid_sizes = [33_000usize, 40_000, 58_000, 59_000, 100_000, 200_000, 230_000];
    let n_d = (12 * 5 * 2 * grid_sizes.len()) as u64;
    for k in ctx.cases(n_small + n_b + n_c + n_d) {
        rep.cur_case = k;
        crate::ctx::begin_case(k);
        let mut rng = ctx.rng("case", k);
        if k < n_small {
            let n = k as usize;
            for level in -1..=10 {
                for class in [0usize, 1, 2, 4] {
                    let d = content(&mut rng, class, n);
                    one(rep, &d, class, level, 0);
                }
            }
            for strategy in 1..=4 {
                let cls = *rng.pick(&[0usize, 4]);
                let d = content(&mut rng, cls, n);
                let lvl = rng.range(0, 11) as i32 - 1;
                one(rep, &d, cls, lvl, strategy);
            }
            rep.count("exhaustive_small_n");
        } else if k < n_small + n_b {
            let kk = (k - n_small) as usize;
            let n = th[kk % th.len()];
            if n > (1 << 20) && !ctx.thorough() && kk / th.len() > 1 {
                continue;
            }
            let class = rng.below(5);
            let level = rng.range(0, 11) as i32 - 1;
            let strategy = if rng.chance(1, 2) { 0 } else { rng.range(1, 4) as i32 };
            let d = content(&mut rng, class, n);
            one(rep, &d, class, level, strategy);
        } else if k >= n_small + n_b + n_c {
            let kk = (k - n_small - n_b - n_c) as usize;
            let level = (kk % 12) as i32 - 1;
            let strategy = ((kk / 12) % 5) as i32;
            let class = [4usize, 1][(kk / 60) % 2];
            let n = grid_sizes[(kk / 120) % grid_sizes.len()];
            let d = if class == 1 {
                // bytes >= 144 with a 258-byte back-reference every 15000 bytes
                let mut v: Vec<u8> = (0..n).map(|_| 144 + rng.below(112) as u8).collect();
                let mut i = 15_000;
                while i + 258 < n {
                    for j in 0..258 {
                        v[i + j] = v[i - 9000 + j];
                    }
                    i += 15_000;
                }
                v
            } else {
                content(&mut rng, class, n)
            };
            one(rep, &d, class, level, strategy);
            rep.count("grid_cases");
        } else {
            let n = 300 + rng.size_biased(if ctx.thorough() { 3_000_000 } else { 300_000 });
            let class = rng.below(CLASSES.len());
            let level = rng.range(0, 11) as i32 - 1;
            let strategy = if rng.chance(1, 2) { 0 } else { rng.range(1, 4) as i32 };
            let d = content(&mut rng, class, n);
            one(rep, &d, class, level, strategy);
        }
    }
    if ctx.only_case.is_none() && ctx.tier != crate::ctx::Tier::Tiny {
        rep.count("exhaustive_spaces");
        rep.gate("exhaustive_small_n", 301);
    }
}
