//! C18 — reset restores fresh behaviour after any history; results are deterministic.

use super::c04::ring_fill;
use super::comp::*;
use crate::ctx::{catch, Ctx};
use crate::gen::{data, faults, grammar};
use crate::refimpl::inflate::{inflate as ref_inflate, Opts};
use crate::report::{hex_short, Json, Report};
use crate::rng::{Hasher, Rng};
use miniz_oxide::deflate::core::{compress, compress_to_output, CompressorOxide, TDEFLFlush, TDEFLStatus};
use miniz_oxide::deflate::stream::deflate;
use miniz_oxide::inflate::core::{decompress_with_limit, DecompressorOxide};
use miniz_oxide::inflate::stream::{inflate, FullReset, InflateState, MinReset, ZeroReset};
use miniz_oxide::{DataFormat, MZFlush};
use miniz_oxide_c_api::{mz_deflate, mz_deflateEnd, mz_deflateInit2, mz_deflateReset, mz_stream};

// ---------------------------------------------------------------- compressor

/// Put a compressor through a prior history; returns a description and whether the history left
/// the object interrupted (pending output / saved match / unflushed block) or in an error state.
fn compressor_history(c: &mut CompressorOxide, rng: &mut Rng) -> (String, bool) {
    let n = rng.size_biased(120_000);
    let cls = rng.below(data::NUM_CLASSES);
    let plain = data::gen(rng, cls, n);
    let kind = rng.below(7);
    let mut desc;
    match kind {
        0 => {
            // stream ended cleanly
            let mut out = vec![0u8; 400_000];
            let mut pos = 0;
            for _ in 0..1000 {
                let r = compress(c, &plain[pos..], &mut out, TDEFLFlush::Finish);
                pos += r.1;
                if r.0 != TDEFLStatus::Okay {
                    break;
                }
            }
            desc = format!("ended stream of {} bytes", n);
        }
        1 | 2 | 3 => {
            // abandoned after k calls with arbitrary flushes and small outputs
            let k = 1 + rng.below(8);
            let mut pos = 0usize;
            desc = format!("abandoned after {} calls on {} bytes:", k, n);
            for _ in 0..k {
                let chunk = rng.size_biased(n + 1).min(plain.len() - pos);
                let fl = *rng.pick(&[TDEFLFlush::None, TDEFLFlush::None, TDEFLFlush::None, TDEFLFlush::Sync, TDEFLFlush::Full, TDEFLFlush::Partial, TDEFLFlush::NoSync]);
                let mut out = vec![0u8; *rng.pick(&[1usize, 3, 100, 5000, 300_000])];
                let r = compress(c, &plain[pos..pos + chunk], &mut out, fl);
                pos += r.1;
                desc += &format!(" ({:?} +{} out {} -> {:?})", fl, chunk, out.len(), r.0);
            }
        }
        4 => {
            // error state: non-Finish after Finish => BadParam
            let mut out = vec![0u8; 1 + rng.below(10)];
            let _ = compress(c, &plain, &mut out, TDEFLFlush::Finish);
            let r = compress(c, &plain[..0], &mut out, TDEFLFlush::None);
            desc = format!("Finish with {}-byte output then None -> {:?}", out.len(), r.0);
        }
        5 => {
            // error state: refusing callback => PutBufFailed
            let mut calls = 0;
            let r = compress_to_output(c, &plain, TDEFLFlush::Finish, |_b: &[u8]| {
                calls += 1;
                calls < 1
            });
            desc = format!("compress_to_output with a refusing callback -> {:?}", r.0);
        }
        _ => {
            // streaming deflate wrapper, abandoned mid-way with a Finish pending
            let mut out = vec![0u8; 1 + rng.below(6)];
            let cut = rng.below(plain.len() + 1);
            let r1 = deflate(c, &plain[..cut], &mut out, MZFlush::None);
            let r2 = deflate(c, &plain[cut..], &mut out, MZFlush::Finish);
            desc = format!("deflate None then Finish into {}-byte outputs -> {:?} {:?}", out.len(), r1.status, r2.status);
        }
    }
    let p = c.verif_probe();
    let interrupted = p.flush_remaining > 0 || p.saved_match_len > 0 || p.lz_total_bytes > 0 || p.lookahead_size > 0 || c.prev_return_status() != TDEFLStatus::Okay && c.prev_return_status() != TDEFLStatus::Done;
    desc += &format!(" [at reset: pending {} saved_match {} lz_bytes {} lookahead {} status {:?}]", p.flush_remaining, p.saved_match_len, p.lz_total_bytes, p.lookahead_size, c.prev_return_status());
    (desc, interrupted)
}

/// Run the same schedule on two compressors in lock-step and compare everything observable.
fn lockstep_compress(rep: &mut Report, a: &mut CompressorOxide, b: &mut CompressorOxide, api: Api, plain: &[u8], steps: &[CStep], tail_out: usize, garbage: (u8, u8)) -> Option<String> {
    let mut pos = 0usize;
    let mut avail = 0usize;
    let mut si = 0usize;
    let mut finishing = false;
    let mut calls = 0;
    loop {
        calls += 1;
        if calls > plain.len() * 3 + steps.len() * 4 + 300_000 {
            return None;
        }
        let step = if si < steps.len() && !(finishing && steps[si].flush != TDEFLFlush::Finish) {
            si += 1;
            steps[si - 1]
        } else {
            CStep { chunk: plain.len(), out_len: tail_out.max(1), flush: TDEFLFlush::Finish }
        };
        avail = (avail + step.chunk).min(plain.len());
        if step.flush == TDEFLFlush::Finish {
            finishing = true;
            avail = plain.len();
        }
        let input = &plain[pos..avail];
        // output buffers pre-filled with different garbage
        let mut oa = vec![garbage.0; step.out_len];
        let mut ob = vec![garbage.1; step.out_len];
        let ra = catch(|| match api {
            Api::Deflate => {
                let r = deflate(a, input, &mut oa, mzflush_of(step.flush));
                (format!("{:?}", r.status), r.bytes_consumed, r.bytes_written)
            }
            _ => {
                let r = compress(a, input, &mut oa, step.flush);
                (format!("{:?}", r.0), r.1, r.2)
            }
        });
        let rb = catch(|| match api {
            Api::Deflate => {
                let r = deflate(b, input, &mut ob, mzflush_of(step.flush));
                (format!("{:?}", r.status), r.bytes_consumed, r.bytes_written)
            }
            _ => {
                let r = compress(b, input, &mut ob, step.flush);
                (format!("{:?}", r.0), r.1, r.2)
            }
        });
        rep.count("lockstep_compress_calls");
        let (ra, rb) = match (ra, rb) {
            (Ok(x), Ok(y)) => (x, y),
            (x, y) => return Some(format!("call {}: panic ({:?} vs {:?})", calls, x.err().map(|p| p.text), y.err().map(|p| p.text))),
        };
        if ra != rb {
            return Some(format!("call {} ({:?}, {} in, {} out): {:?} vs {:?}", calls, step.flush, input.len(), step.out_len, ra, rb));
        }
        let w = ra.2.min(step.out_len);
        if oa[..w] != ob[..w] {
            let i = oa[..w].iter().zip(ob[..w].iter()).position(|(x, y)| x != y).unwrap();
            return Some(format!("call {}: output bytes differ at offset {} of this call ({:02x} vs {:02x})", calls, i, oa[i], ob[i]));
        }
        if a.adler32() != b.adler32() || a.prev_return_status() != b.prev_return_status() || a.unwritten_bit_count() != b.unwritten_bit_count() {
            return Some(format!("call {}: exposed state differs (adler {:08x}/{:08x}, status {:?}/{:?})", calls, a.adler32(), b.adler32(), a.prev_return_status(), b.prev_return_status()));
        }
        pos += ra.1.min(input.len());
        if ra.0.contains("Done") || ra.0.contains("StreamEnd") {
            return None;
        }
        if !(ra.0.contains("Okay") || ra.0.contains("Ok(Ok)") || ra.0.contains("Buf")) {
            return None; // both equally in an error state: nothing more to compare
        }
    }
}

fn compressor_reset(rep: &mut Report, rng: &mut Rng, k: u64) {
    let cfg = Config::nth(k.wrapping_mul(11) + 2);
    let mut used = cfg.make();
    let (hdesc, interrupted) = compressor_history(&mut used, rng);
    used.reset();
    let mut fresh = cfg.make();
    // subsequent stream with different data
    let (plain, _cls) = gen_plain(rng, 100_000);
    let api = if rng.chance(1, 3) { Api::Deflate } else { Api::Compress };
    let fam = rng.below(8);
    let (steps, tail_out, family) = gen_schedule(rng, plain.len(), api, fam);
    rep.eval();
    rep.count("compressor_reset_triples");
    if interrupted {
        rep.count("compressor_resets_after_interrupted_or_failed_history");
    }
    if let Some(diff) = lockstep_compress(rep, &mut used, &mut fresh, api, &plain, &steps, tail_out, (0xAA, 0x55)) {
        rep.violation(
            &format!("C18:compressor-reset-differs:{}", if cfg.level == 0 { "level0" } else if cfg.level == 1 { "level1" } else { "level2+" }),
            format!("after reset() a compressor behaves differently from a fresh one ({}): {}", cfg.describe(), diff),
            Json::obj(vec![("config", Json::s(&cfg.describe())), ("prior_history", Json::s(&hdesc)), ("subsequent_plain_hex", Json::s(&hex_short(&plain, 200))), ("subsequent_plain_len", Json::u(plain.len())), ("schedule_family", Json::s(family)), ("schedule", steps_json(&steps)), ("difference", Json::s(&diff))]),
        );
        return;
    }
    if interrupted && plain.len() > 3 {
        let mut h = Hasher::new();
        h.bytes(&plain).u64(cfg.index()).bytes(hdesc.as_bytes());
        rep.nontrivial(h.finish());
        rep.sample(|| Json::obj(vec![("object", Json::s("CompressorOxide::reset")), ("config", Json::s(&cfg.describe())), ("prior_history", Json::s(&hdesc)), ("subsequent_plain_len", Json::u(plain.len())), ("schedule_family", Json::s(family))]));
    }
}

fn determinism(rep: &mut Report, rng: &mut Rng, k: u64) {
    let cfg = Config::nth(k.wrapping_mul(5) + 9);
    // two fresh objects at different heap addresses (a spacer allocation in between)
    let mut a = cfg.make();
    let _spacer: Vec<u8> = vec![1u8; 1 + rng.below(100_000)];
    let mut b = cfg.make();
    let (plain, _) = gen_plain(rng, 100_000);
    let api = if rng.bool() { Api::Deflate } else { Api::Compress };
    let (steps, tail_out, _fam) = gen_schedule(rng, plain.len(), api, rng.clone().below(8));
    rep.eval();
    rep.count("determinism_pairs");
    if let Some(diff) = lockstep_compress(rep, &mut a, &mut b, api, &plain, &steps, tail_out, (0x00, 0xFF)) {
        rep.violation("C18:nondeterministic-compressor", format!("two fresh compressors given equal call sequences differ ({}): {}", cfg.describe(), diff), Json::obj(vec![("config", Json::s(&cfg.describe())), ("plain_hex", Json::s(&hex_short(&plain, 200)))]));
    } else if plain.len() > 3 {
        let mut h = Hasher::new();
        h.bytes(&plain).u64(cfg.index()).u64(7);
        rep.nontrivial(h.finish());
    }
}

// ---------------------------------------------------------------- C deflate stream

fn c_deflate_reset(rep: &mut Report, rng: &mut Rng) {
    let level = rng.below(11) as i32;
    let strategy = rng.below(5) as i32;
    let wbits = if rng.bool() { 15 } else { -15 };
    let mut used = mz_stream::default();
    let mut fresh = mz_stream::default();
    unsafe {
        if mz_deflateInit2(&mut used, level, 8, wbits, 9, strategy) != 0 || mz_deflateInit2(&mut fresh, level, 8, wbits, 9, strategy) != 0 {
            return;
        }
    }
    // prior history on `used`
    let n = rng.size_biased(80_000);
    let h = data::gen(rng, rng.clone().below(data::NUM_CLASSES), n);
    let mut ob = vec![0u8; *rng.pick(&[1usize, 5, 1000, 200_000])];
    let ncalls = 1 + rng.below(5);
    let mut pos = 0usize;
    let mut hdesc = String::new();
    for _ in 0..ncalls {
        let chunk = rng.below(h.len() - pos + 1);
        used.next_in = unsafe { h.as_ptr().add(pos) };
        used.avail_in = chunk as u32;
        used.next_out = ob.as_mut_ptr();
        used.avail_out = ob.len() as u32;
        let fl = *rng.pick(&[0, 0, 2, 3, 4]);
        let rc = unsafe { mz_deflate(&mut used, fl) };
        pos += chunk - used.avail_in as usize;
        hdesc += &format!("(flush {} +{} -> {}) ", fl, chunk, rc);
    }
    let rc = unsafe { mz_deflateReset(&mut used) };
    if rc != 0 {
        rep.violation("C18:mz_deflateReset-failed", format!("mz_deflateReset returned {}", rc), Json::s(&hdesc));
        return;
    }
    rep.eval();
    rep.count("c_deflate_reset_triples");
    let plain = data::gen(rng, rng.clone().below(data::NUM_CLASSES), rng.clone().size_biased(80_000));
    let mut pos = 0usize;
    let mut calls = 0;
    loop {
        calls += 1;
        if calls > 500_000 {
            break;
        }
        let end = (pos + 1 + rng.size_biased(30_000)).min(plain.len());
        let fin = end == plain.len();
        let osz = *rng.pick(&[1usize, 7, 300, 100_000]);
        let mut oa = vec![0x11u8; osz];
        let mut obb = vec![0xEEu8; osz];
        let fl = if fin { 4 } else { *rng.pick(&[0, 0, 2, 3]) };
        let mut res = Vec::new();
        for (s, o) in [(&mut used, &mut oa), (&mut fresh, &mut obb)] {
            s.next_in = unsafe { plain.as_ptr().add(pos) };
            s.avail_in = (end - pos) as u32;
            s.next_out = o.as_mut_ptr();
            s.avail_out = osz as u32;
            let rc = unsafe { mz_deflate(s, fl) };
            res.push((rc, s.avail_in, s.avail_out, s.total_in, s.total_out, s.adler));
        }
        rep.count("lockstep_c_deflate_calls");
        let w = osz - res[0].2 as usize;
        if res[0] != res[1] || oa[..w] != obb[..w.min(osz - res[1].2 as usize)] {
            rep.violation("C18:mz_deflateReset-differs", format!("after mz_deflateReset call {} differs from a fresh stream: (rc, avail_in, avail_out, total_in, total_out, adler) = {:?} vs {:?} (level {} strategy {} wbits {})", calls, res[0], res[1], level, strategy, wbits), Json::obj(vec![("prior_history", Json::s(&hdesc)), ("plain_hex", Json::s(&hex_short(&plain, 100)))]));
            break;
        }
        pos = end - res[0].1 as usize;
        if res[0].0 == 1 || (res[0].0 < 0 && res[0].0 != -5) {
            break;
        }
    }
    unsafe {
        mz_deflateEnd(&mut used);
        mz_deflateEnd(&mut fresh);
    }
    let mut hs = Hasher::new();
    hs.bytes(&plain).bytes(hdesc.as_bytes());
    if plain.len() > 3 {
        rep.nontrivial(hs.finish());
    }
}

// ---------------------------------------------------------------- streaming inflater

fn subsequent_stream(rng: &mut Rng, zl: bool, before_start_refs: bool) -> Vec<u8> {
    if before_start_refs {
        // valid under window semantics only: matches reaching before the stream's own output
        let mut b = grammar::Builder::new(zl);
        let n = rng.below(20);
        for _ in 0..n {
            b.lit(rng.byte());
        }
        let have = b.out_len();
        b.mat_unchecked(3 + rng.below(100), have + 1 + rng.below(3000));
        grammar::random_tokens(&mut b, rng, 30, 32768);
        b.end_fixed(true);
        // (for zlib the trailer is computed over placeholder zeros and will not match; raw only)
        b.finish(0).bytes
    } else {
        let mut o = if rng.bool() { grammar::GenOpts::medium(zl) } else { grammar::GenOpts::large(zl) };
        o.max_tokens = 3000;
        let g = grammar::random_stream(rng, &o);
        match rng.below(6) {
            0 => faults::mutate(rng, &g.bytes, &[]).0,
            1 => g.bytes[..rng.below(g.bytes.len() + 1)].to_vec(),
            _ => g.bytes,
        }
    }
}

fn inflate_history(st: &mut InflateState, rng: &mut Rng, zl: bool) -> String {
    let kind = rng.below(6);
    let mut o = grammar::GenOpts::large(zl);
    o.max_tokens = 6000;
    let g = grammar::random_stream(rng, &o);
    let mut out = vec![0u8; *rng.pick(&[1usize, 100, 40_000, 200_000])];
    match kind {
        0 => {
            // ended
            let mut pos = 0;
            for _ in 0..100_000 {
                let r = inflate(st, &g.bytes[pos..], &mut out, MZFlush::None);
                pos += r.bytes_consumed;
                if r.status != Ok(miniz_oxide::MZStatus::Ok) {
                    break;
                }
            }
            format!("stream of {} bytes ended", g.plain.len())
        }
        1 | 2 => {
            // abandoned after k calls
            let k = 1 + rng.below(6);
            let mut pos = 0;
            for _ in 0..k {
                let chunk = rng.below(g.bytes.len() - pos + 1);
                let r = inflate(st, &g.bytes[pos..pos + chunk], &mut out, *rng.pick(&[MZFlush::None, MZFlush::Sync]));
                pos += r.bytes_consumed;
            }
            let p = st.verif_probe();
            format!("abandoned after {} calls at input {} of {} (dict_ofs {} dict_avail {})", k, pos, g.bytes.len(), p.0, p.1)
        }
        3 => {
            // failed: corrupt data
            let (m, how) = faults::mutate(rng, &g.bytes, &[]);
            let mut pos = 0;
            let mut last = String::new();
            for _ in 0..50_000 {
                let r = inflate(st, &m[pos..], &mut out, MZFlush::None);
                pos += r.bytes_consumed;
                last = format!("{:?}", r.status);
                if r.status != Ok(miniz_oxide::MZStatus::Ok) {
                    break;
                }
            }
            format!("mutant ({}) decoded until {}", how, last)
        }
        4 => {
            // Finish on a truncated stream => Err(Buf)
            let cut = rng.below(g.bytes.len());
            let r = inflate(st, &g.bytes[..cut], &mut out, MZFlush::Finish);
            format!("Finish on a truncated stream -> {:?}", r.status)
        }
        _ => {
            // has_flushed set, then a non-Finish call => Err(Stream)
            let cut = rng.below(g.bytes.len());
            let _ = inflate(st, &g.bytes[..cut], &mut out, MZFlush::None);
            let r1 = inflate(st, &g.bytes[cut..cut], &mut out, MZFlush::Finish);
            let r2 = inflate(st, &g.bytes[cut..], &mut out, MZFlush::None);
            format!("None, Finish(empty) -> {:?}, None -> {:?}", r1.status, r2.status)
        }
    }
}

fn inflate_reset(rep: &mut Report, rng: &mut Rng) {
    let zl = rng.bool();
    let fmt = |z: bool| if z { DataFormat::Zlib } else { DataFormat::Raw };
    let mut used = InflateState::new_boxed(fmt(zl));
    let hdesc = inflate_history(&mut used, rng, zl);
    let policy = rng.below(4);
    let mut zl2 = zl;
    let pname = match policy {
        0 => {
            used.reset_as(MinReset);
            "MinReset"
        }
        1 => {
            used.reset_as(ZeroReset);
            "ZeroReset"
        }
        2 => {
            zl2 = rng.bool();
            used.reset_as(FullReset(fmt(zl2)));
            "FullReset"
        }
        _ => {
            zl2 = rng.bool();
            used.reset(fmt(zl2));
            "reset()"
        }
    };
    let mut fresh = InflateState::new_boxed(fmt(zl2));
    let before_start = !zl2 && rng.chance(1, 3);
    let s = subsequent_stream(rng, zl2, before_start);
    // does the subsequent stream (by construction or by mutation) reach before its own start?
    // (reference decoder, 32 KiB window of zeros = what a fresh inflater sees)
    let zeros = vec![0u8; 32768];
    let rtrace = ref_inflate(&s, Opts::fmt(zl2).ring(&zeros, 0).with_taint());
    let reaches_before_start = rtrace.stats.before_start_refs > 0;
    let min_reset_excuse = pname == "MinReset" && reaches_before_start;
    rep.eval();
    rep.count(&format!("inflate_reset_triples_{}", pname));
    if before_start {
        rep.count("subsequent_streams_with_before_start_references");
    }
    // same schedule on both
    let mut pos = 0usize;
    let mut total_out_a: Vec<u8> = Vec::new();
    let mut total_out_b: Vec<u8> = Vec::new();
    let mut calls = 0;
    let mut status_diff: Option<String> = None;
    let finish_first = rng.chance(1, 5);
    loop {
        calls += 1;
        if calls > 200_000 {
            break;
        }
        let end = (pos + 1 + rng.size_biased(5000)).min(s.len());
        let osz = *rng.pick(&[1usize, 3, 100, 5000, 40_000, 100_000]);
        let fl = if finish_first { MZFlush::Finish } else { *rng.pick(&[MZFlush::None, MZFlush::None, MZFlush::Sync]) };
        let slice = if finish_first { &s[pos..] } else { &s[pos..end] };
        let osz = if finish_first { 300_000 } else { osz };
        let mut oa = vec![0x33u8; osz];
        let mut ob = vec![0xCCu8; osz];
        let ra = catch(|| inflate(&mut used, slice, &mut oa, fl));
        let rb = catch(|| inflate(&mut fresh, slice, &mut ob, fl));
        rep.count("lockstep_inflate_calls");
        let (ra, rb) = match (ra, rb) {
            (Ok(a), Ok(b)) => (a, b),
            _ => {
                status_diff = Some(format!("call {}: panic in one of the two objects", calls));
                break;
            }
        };
        if ra.status != rb.status || ra.bytes_consumed != rb.bytes_consumed || ra.bytes_written != rb.bytes_written {
            status_diff = Some(format!("call {}: reset object ({:?}, {}, {}) vs fresh object ({:?}, {}, {})", calls, ra.status, ra.bytes_consumed, ra.bytes_written, rb.status, rb.bytes_consumed, rb.bytes_written));
            break;
        }
        if used.decompressor().adler32() != fresh.decompressor().adler32() && !min_reset_excuse {
            status_diff = Some(format!("call {}: exposed adler32 differs ({:?} vs {:?})", calls, used.decompressor().adler32(), fresh.decompressor().adler32()));
            break;
        }
        total_out_a.extend_from_slice(&oa[..ra.bytes_written]);
        total_out_b.extend_from_slice(&ob[..rb.bytes_written]);
        pos += ra.bytes_consumed;
        if ra.status != Ok(miniz_oxide::MZStatus::Ok) && !(ra.status == Err(miniz_oxide::MZError::Buf) && pos < s.len() && !finish_first) {
            break;
        }
        if ra.bytes_consumed == 0 && ra.bytes_written == 0 && end == s.len() {
            break;
        }
    }
    let det = |what: &str| Json::obj(vec![("policy", Json::s(pname)), ("prior_history", Json::s(&hdesc)), ("subsequent_stream_hex", Json::s(&hex_short(&s, 300))), ("format", Json::s(if zl2 { "zlib" } else { "raw" })), ("first_call_finish", Json::Bool(finish_first)), ("what", Json::s(what))]);
    // bytes delivered so far: do they differ, and only where the reference trace says the byte
    // derives from a reference before the stream's own start?
    let r = &rtrace;
    let tainted_only = {
        let mut ok = true;
        let mut any = false;
        for i in 0..total_out_a.len().min(total_out_b.len()) {
            if total_out_a[i] != total_out_b[i] {
                any = true;
                if i >= r.taint.len() || !r.taint[i] {
                    ok = false;
                }
            }
        }
        ok && any
    };
    if let Some(d) = status_diff {
        // under MinReset a checksum verdict / status may differ *because* tainted bytes differ
        // (the known finding); any other status difference is a violation
        let sig = if min_reset_excuse && tainted_only { "C18:inflate-reset-differs:MinReset:only-bytes-derived-from-before-stream-start".to_string() } else { format!("C18:inflate-reset-differs:{}:results", pname) };
        rep.violation(&sig, format!("after reset_as({}) the inflater answers differently from a fresh one: {}", pname, d), det(&d));
        return;
    }
    if total_out_a != total_out_b {
        let mut all_tainted = true;
        let mut first = None;
        for i in 0..total_out_a.len().min(total_out_b.len()) {
            if total_out_a[i] != total_out_b[i] {
                if first.is_none() {
                    first = Some(i);
                }
                if i >= r.taint.len() || !r.taint[i] {
                    all_tainted = false;
                }
            }
        }
        if total_out_a.len() != total_out_b.len() {
            all_tainted = false;
        }
        let sig = if pname == "MinReset" && all_tainted { "C18:inflate-reset-differs:MinReset:only-bytes-derived-from-before-stream-start".to_string() } else { format!("C18:inflate-reset-differs:{}:output-bytes", pname) };
        rep.violation(
            &sig,
            format!("after reset_as({}) the subsequent stream decodes to different bytes than with a fresh inflater (first difference at output offset {:?}; every differing byte derives from a reference before the stream's own start: {})", pname, first, all_tainted),
            det("output differs"),
        );
        return;
    }
    let mut h = Hasher::new();
    h.bytes(&s).bytes(hdesc.as_bytes()).u64(policy as u64);
    rep.nontrivial(h.finish());
    rep.sample(|| det("identical results call by call"));
}

// ---------------------------------------------------------------- low-level decoder init()

fn decoder_init(rep: &mut Report, rng: &mut Rng) {
    let zl = rng.bool();
    let flags = if zl { 1 } else { 0 };
    let mut used = DecompressorOxide::new();
    // prior history: arbitrary partial decode of some other data
    let (junk, _) = {
        let g = grammar::random_stream(rng, &grammar::GenOpts::medium(rng.clone().bool()));
        if rng.bool() {
            (g.bytes, 0)
        } else {
            (faults::mutate(rng, &g.bytes, &[]).0, 1)
        }
    };
    let mut tmp = vec![0u8; 32768];
    let cut = rng.below(junk.len() + 1);
    let hflags = (rng.below(2) as u32) | 2 | if rng.bool() { 4 } else { 0 };
    let r0 = decompress_with_limit(&mut used, &junk[..cut], &mut tmp, 0, 1 + rng.below(5000), hflags);
    let state_at_init = used.verif_state();
    used.init();
    let mut fresh = DecompressorOxide::new();
    let bs = !zl && rng.chance(1, 4);
    let s = subsequent_stream(rng, zl, bs);
    let ring = rng.bool();
    let size = if ring { 32768 } else { 70_000 };
    let fill = ring_fill(size);
    let mut ba = fill.clone();
    let mut bb = fill;
    let mut pos = 0;
    let mut opos = 0usize;
    let mut calls = 0;
    rep.eval();
    rep.count("decoder_init_triples");
    loop {
        calls += 1;
        if calls > 100_000 {
            break;
        }
        let end = (pos + 1 + rng.size_biased(3000)).min(s.len());
        let budget = *rng.pick(&[usize::MAX, 1, 100, 3000]);
        let f = flags | if ring { 0 } else { 4 } | if end < s.len() { 2 } else { 0 };
        let ra = catch(|| decompress_with_limit(&mut used, &s[pos..end], &mut ba, opos, budget, f));
        let rb = catch(|| decompress_with_limit(&mut fresh, &s[pos..end], &mut bb, opos, budget, f));
        let (ra, rb) = match (ra, rb) {
            (Ok(a), Ok(b)) => (a, b),
            _ => break,
        };
        if ra != rb || ba != bb || used.adler32() != fresh.adler32() {
            rep.violation(
                "C18:decoder-init-differs",
                format!("after init() call {} returns {:?} but a new decoder returns {:?} (buffers equal: {})", calls, (super::common::st_name(ra.0), ra.1, ra.2), (super::common::st_name(rb.0), rb.1, rb.2), ba == bb),
                Json::obj(vec![("prior", Json::s(&format!("decoded {} of {} junk bytes with flags {:#x} -> {:?}; state at init {}", cut, junk.len(), hflags, (super::common::st_name(r0.0), r0.1, r0.2), super::common::state_name(state_at_init)))), ("subsequent_stream_hex", Json::s(&hex_short(&s, 300))), ("mode", Json::s(if ring { "ring" } else { "flat" }))]),
            );
            return;
        }
        pos += ra.1;
        opos += ra.2;
        if ring && opos >= size {
            opos = 0;
        }
        if (ra.0 as i8) <= 0 || (ra.1 == 0 && ra.2 == 0 && end == s.len() && budget > 0) || (!ring && opos >= size) {
            break;
        }
    }
    let mut h = Hasher::new();
    h.bytes(&s).bytes(&junk).u64(cut as u64);
    if state_at_init != 0 {
        rep.nontrivial(h.finish());
        rep.set_insert("decoder_states_at_init", super::common::state_name(state_at_init));
    }
}

pub fn run(ctx: &Ctx, rep: &mut Report) {
    let n_c = ctx.n(40_000, 1_600_000);
    let n_det = ctx.n(6000, 160_000);
    let n_capi = ctx.n(6000, 160_000);
    let n_inf = ctx.n(40_000, 1_600_000);
    let n_dec = ctx.n(32_000, 960_000);
    for k in ctx.cases(n_c + n_det + n_capi + n_inf + n_dec) {
        rep.cur_case = k;
        crate::ctx::begin_case(k);
        let mut rng = ctx.rng("case", k);
        if k < n_c {
            compressor_reset(rep, &mut rng, k);
        } else if k < n_c + n_det {
            determinism(rep, &mut rng, k);
        } else if k < n_c + n_det + n_capi {
            c_deflate_reset(rep, &mut rng);
        } else if k < n_c + n_det + n_capi + n_inf {
            inflate_reset(rep, &mut rng);
        } else {
            decoder_init(rep, &mut rng);
        }
    }
    if ctx.only_case.is_none() && ctx.tier != crate::ctx::Tier::Tiny {
        rep.gate("compressor_resets_after_interrupted_or_failed_history", if ctx.thorough() { 20_000 } else { 500 });
    }
}
