//! C14 — streaming deflate obeys its status protocol and always makes progress.

use super::comp::Config;
use crate::ctx::{catch, Ctx};
use crate::gen::data;
use crate::refimpl::inflate::{inflate as ref_inflate, Opts, Verdict};
use crate::report::{hex_short, Json, Report};
use crate::rng::{Hasher, Rng};
use miniz_oxide::deflate::core::{CompressionStrategy, CompressorOxide};
use miniz_oxide::deflate::stream::deflate;
use miniz_oxide::{MZError, MZFlush, MZStatus};

#[derive(Clone, Copy, Debug, PartialEq, Eq)]
pub struct Action {
    pub chunk: usize, // usize::MAX = rest
    pub out: usize,
    pub flush: MZFlush,
}

pub const CHUNKS: [usize; 3] = [0, 1, usize::MAX];
pub const OUTS: [usize; 4] = [0, 1, 5, 100_000];
pub const FLUSHES: [MZFlush; 4] = [MZFlush::None, MZFlush::Sync, MZFlush::Full, MZFlush::Finish];

#[derive(Clone, Debug)]
struct Spec {
    pos: usize,
    out: Vec<u8>,
    ever_finish: bool,
    ended: bool,
    /// a misuse error was returned (non-Finish after Finish): afterwards only universal invariants
    undetermined: bool,
    /// the previous call was a Finish that returned Ok (output full)
    prev_finish_ok: bool,
    history: Vec<String>,
}

type V = Option<(String, String)>;

fn name(r: &Result<MZStatus, MZError>) -> String {
    match r {
        Ok(s) => format!("Ok({:?})", s),
        Err(e) => format!("Err({:?})", e),
    }
}

struct Checker<'a> {
    plain: &'a [u8],
    cfg: Config,
    buf: Vec<u8>,
}

impl<'a> Checker<'a> {
    fn step(&mut self, c: &mut CompressorOxide, spec: &mut Spec, a: Action, log: bool, rep: &mut Report) -> V {
        let avail = self.plain.len() - spec.pos;
        let n_in = if a.chunk == usize::MAX { avail } else { a.chunk.min(avail) };
        let input = &self.plain[spec.pos..spec.pos + n_in];
        let probe_before = c.verif_probe();
        let adler_before = c.adler32();
        let status_before = c.prev_return_status();
        let out = &mut self.buf[..a.out];
        let r = match catch(|| deflate(c, input, out, a.flush)) {
            Ok(r) => r,
            Err(p) => return Some((format!("C14:panic:{}", p.site_file()), format!("deflate() panicked: {}", p.text))),
        };
        if log {
            spec.history.push(format!("in={} out={} {:?} -> {} c={} w={}", n_in, a.out, a.flush, name(&r.status), r.bytes_consumed, r.bytes_written));
        }
        if r.bytes_consumed > n_in || r.bytes_written > a.out {
            return Some(("C14:counts-exceed-buffers".into(), format!("consumed {} of {}, written {} of {}", r.bytes_consumed, n_in, r.bytes_written, a.out)));
        }
        let progress = r.bytes_consumed + r.bytes_written > 0;
        spec.out.extend_from_slice(&self.buf[..r.bytes_written]);
        spec.pos += r.bytes_consumed;
        // empty output buffer: refused without side effects
        if a.out == 0 {
            if r.status != Err(MZError::Buf) || progress {
                return Some(("C14:empty-output-not-refused".into(), format!("empty output buffer: {} ({}, {})", name(&r.status), r.bytes_consumed, r.bytes_written)));
            }
            if c.verif_probe() != probe_before || c.adler32() != adler_before || c.prev_return_status() != status_before {
                return Some(("C14:empty-output-side-effect".into(), format!("a refused call changed the compressor: {:?} -> {:?}", probe_before, c.verif_probe())));
            }
            rep.count("empty_output_calls_refused");
            return None;
        }
        if spec.undetermined {
            return None;
        }
        // after the end of the stream
        if spec.ended {
            if a.flush == MZFlush::Finish {
                if r.status != Ok(MZStatus::StreamEnd) || progress {
                    return Some(("C14:finish-after-end".into(), format!("Finish after the stream ended: {} ({}, {})", name(&r.status), r.bytes_consumed, r.bytes_written)));
                }
            } else if r.status != Err(MZError::Buf) || progress {
                return Some(("C14:non-finish-after-end".into(), format!("{:?} after the stream ended: {} ({}, {}) (expected Err(Buf), nothing written)", a.flush, name(&r.status), r.bytes_consumed, r.bytes_written)));
            }
            return None;
        }
        // non-Finish after an unfinished Finish: an error, nothing consumed or written
        if spec.ever_finish && a.flush != MZFlush::Finish {
            if r.status.is_ok() || progress {
                return Some(("C14:non-finish-after-finish-accepted".into(), format!("{:?} after Finish: {} ({}, {})", a.flush, name(&r.status), r.bytes_consumed, r.bytes_written)));
            }
            spec.undetermined = true;
            rep.count("non_finish_after_finish_rejected");
            return None;
        }
        let first_finish_now = a.flush == MZFlush::Finish && !spec.ever_finish;
        let prev_finish_ok = spec.prev_finish_ok;
        spec.prev_finish_ok = a.flush == MZFlush::Finish && r.status == Ok(MZStatus::Ok);
        if a.flush == MZFlush::Finish {
            spec.ever_finish = true;
        }
        match r.status {
            Ok(MZStatus::StreamEnd) => {
                if a.flush != MZFlush::Finish {
                    return Some(("C14:stream-end-without-finish".into(), format!("StreamEnd returned for {:?}", a.flush)));
                }
                // (input offered in later Finish calls, after the caller already declared the end of
                // the data, need not be consumed; what counts is that the delivered stream decodes
                // to exactly the consumed input, checked at the end of the history)
                if first_finish_now && r.bytes_consumed != n_in {
                    return Some(("C14:stream-end-with-input-left".into(), format!("StreamEnd in the first Finish call but only {} of {} offered bytes consumed", r.bytes_consumed, n_in)));
                }
                // stream-end belongs to the call that delivers the last byte: a Finish call that
                // finds nothing left to consume or write means the previous one (Ok) already had
                if prev_finish_ok && !progress {
                    return Some(("C14:stream-end-one-call-late".into(), "the previous Finish call returned Ok although it delivered the last output byte; StreamEnd only came on a call that consumed and wrote nothing".into()));
                }
                if prev_finish_ok {
                    rep.count("stream_end_after_finish_ok_with_progress");
                }
                spec.ended = true;
            }
            Ok(MZStatus::Ok) => {
                if a.flush == MZFlush::Finish && r.bytes_written != a.out {
                    return Some(("C14:finish-returned-early".into(), format!("Finish returned Ok with {} of {} output bytes used (must work until the stream ends or the output is full)", r.bytes_written, a.out)));
                }
                if (n_in > 0 || a.flush != MZFlush::None) && !progress {
                    return Some(("C14:no-progress".into(), format!("Ok without progress: {} input bytes, {} output bytes, {:?}", n_in, a.out, a.flush)));
                }
                if a.flush == MZFlush::Finish && c.verif_probe().flush_remaining > 0 {
                    rep.count("finish_calls_output_full_with_pending");
                }
            }
            Ok(MZStatus::NeedDict) => return Some(("C14:need-dict".into(), "NeedDict".into())),
            Err(MZError::Buf) => {
                if n_in > 0 || a.flush != MZFlush::None {
                    return Some(("C14:buf-error-with-work-to-do".into(), format!("Err(Buf) although output space and {} were given", if n_in > 0 { "input" } else { "a flush request" })));
                }
            }
            Err(e) => return Some((format!("C14:unexpected-error-{:?}", e), format!("{:?} for in={} out={} {:?}", e, n_in, a.out, a.flush))),
        }
        None
    }

    /// Finish with all remaining input until the stream ends; then check the stream.
    fn drain(&mut self, c: &mut CompressorOxide, spec: &mut Spec, log: bool, rep: &mut Report) -> V {
        if spec.undetermined {
            return None;
        }
        let bound = 64 + self.plain.len() / 1000;
        for _ in 0..bound {
            if spec.ended {
                break;
            }
            if let Some(v) = self.step(c, spec, Action { chunk: usize::MAX, out: 100_000, flush: MZFlush::Finish }, log, rep) {
                return Some(v);
            }
        }
        if !spec.ended {
            return Some(("C14:finish-loop-did-not-end".into(), format!("repeating Finish with a 100000-byte output did not reach StreamEnd ({} of {} consumed)", spec.pos, self.plain.len())));
        }
        // one more Finish: StreamEnd, nothing written; one None: Err(Buf)
        if let Some(v) = self.step(c, spec, Action { chunk: usize::MAX, out: 64, flush: MZFlush::Finish }, log, rep) {
            return Some(v);
        }
        if let Some(v) = self.step(c, spec, Action { chunk: usize::MAX, out: 64, flush: MZFlush::None }, log, rep) {
            return Some(v);
        }
        let r = ref_inflate(&spec.out, Opts::fmt(self.cfg.zlib));
        let ok = matches!(r.verdict, Verdict::Complete { consumed, .. } if consumed == spec.out.len()) && r.out == self.plain[..spec.pos];
        if !ok {
            return Some(("C14:output-does-not-decode".into(), format!("the delivered bytes decode to {:?} / {} bytes, but {} bytes were consumed", r.verdict, r.out.len(), spec.pos)));
        }
        None
    }
}

fn new_spec() -> Spec {
    Spec { pos: 0, out: Vec::new(), ever_finish: false, ended: false, undetermined: false, prev_finish_ok: false, history: Vec::new() }
}

fn witness(rep: &mut Report, plain: &[u8], cfg: Config, seq: &[Action], v: (String, String)) {
    let mut ck = Checker { plain, cfg, buf: vec![0u8; 100_000] };
    let mut c = cfg.make();
    let mut spec = new_spec();
    let mut dummy = Report::new("C14");
    for a in seq {
        if ck.step(&mut c, &mut spec, *a, true, &mut dummy).is_some() {
            break;
        }
    }
    let _ = ck.drain(&mut c, &mut spec, true, &mut dummy);
    rep.violation(
        &v.0,
        format!("{} ({})", v.1, cfg.describe()),
        Json::obj(vec![
            ("config", Json::s(&cfg.describe())),
            ("plain_hex", Json::s(&hex_short(plain, 200))),
            ("plain_len", Json::u(plain.len())),
            ("sequence", Json::Arr(seq.iter().map(|a| Json::s(&format!("chunk={} out={} {:?}", if a.chunk == usize::MAX { "rest".to_string() } else { a.chunk.to_string() }, a.out, a.flush))).collect())),
            ("calls", Json::Arr(spec.history.iter().map(|h| Json::s(h)).collect())),
        ]),
    );
}

#[allow(clippy::too_many_arguments)]
fn dfs(rep: &mut Report, ck: &mut Checker, c: &CompressorOxide, spec: &Spec, seq: &mut Vec<Action>, depth: usize, first: usize, second: Option<usize>) {
    if seq.len() == depth {
        let mut c2 = c.clone();
        let mut sp2 = spec.clone();
        rep.eval();
        rep.count("sequences_enumerated");
        let res = ck.drain(&mut c2, &mut sp2, false, rep);
        if let Some(v) = res {
            witness(rep, ck.plain, ck.cfg, seq, v);
            return;
        }
        // refused (empty-output) calls must leave no trace: the same sequence without them
        // must produce the same bytes
        if !sp2.undetermined && seq.iter().any(|a| a.out == 0) {
            let filtered: Vec<Action> = seq.iter().filter(|a| a.out != 0).cloned().collect();
            let mut c3 = ck.cfg.make();
            let mut sp3 = new_spec();
            let mut dummy = Report::new("C14");
            let mut bad = false;
            for a in &filtered {
                if ck.step(&mut c3, &mut sp3, *a, false, &mut dummy).is_some() {
                    bad = true;
                    break;
                }
            }
            if !bad && ck.drain(&mut c3, &mut sp3, false, &mut dummy).is_none() && !sp3.undetermined {
                rep.count("twin_without_refused_calls_compared");
                if sp3.out != sp2.out {
                    witness(rep, ck.plain, ck.cfg, seq, ("C14:empty-output-side-effect".into(), "the history with refused (empty-output) calls produced different bytes than the same history without them".into()));
                }
            }
        }
        return;
    }
    let mut idx = 0usize;
    for &chunk in &CHUNKS {
        for &out in &OUTS {
            for &flush in &FLUSHES {
                let this = idx;
                idx += 1;
                if seq.is_empty() && this != first {
                    continue;
                }
                if seq.len() == 1 && second.map_or(false, |s2| s2 != this) {
                    continue;
                }
                let a = Action { chunk, out, flush };
                let mut c2 = c.clone();
                let mut sp2 = spec.clone();
                seq.push(a);
                match ck.step(&mut c2, &mut sp2, a, false, rep) {
                    Some(v) => {
                        rep.eval();
                        witness(rep, ck.plain, ck.cfg, seq, v);
                    }
                    None => dfs(rep, ck, &c2, &sp2, seq, depth, first, second),
                }
                seq.pop();
                if rep.violations.len() >= rep.max_violations {
                    return;
                }
            }
        }
    }
}

/// the first DEEP_SUBJECTS subjects are also enumerated to depth 4 in the thorough tier
const DEEP_SUBJECTS: usize = 6;

fn subjects(rng: &mut Rng) -> Vec<Vec<u8>> {
    vec![Vec::new(), vec![b'z'], vec![b'a'; 300], rng.bytes(100), data::gen(rng, 11, 3000), data::gen(rng, 7, 1500)]
}

const CONFIGS: [Config; 3] = [
    Config { level: 1, strategy: CompressionStrategy::Default, zlib: false, wbits: 15 },
    Config { level: 6, strategy: CompressionStrategy::Default, zlib: true, wbits: 15 },
    Config { level: 0, strategy: CompressionStrategy::Default, zlib: true, wbits: 15 },
];

fn random_history(rep: &mut Report, rng: &mut Rng, k: u64) {
    let cfg = Config::nth(k.wrapping_mul(17) + 1);
    let n = rng.size_biased(200_000);
    let cls = rng.below(data::NUM_CLASSES);
    let plain = data::gen(rng, cls, n);
    let mut ck = Checker { plain: &plain, cfg, buf: vec![0u8; 100_000] };
    let mut c = cfg.make();
    let mut spec = new_spec();
    let steps = 1 + rng.size_biased(3000);
    let misuse = rng.chance(1, 10);
    let mut seq: Vec<Action> = Vec::new();
    for i in 0..steps {
        let flush = if spec.ever_finish && !misuse {
            MZFlush::Finish
        } else {
            *rng.pick(&[MZFlush::None, MZFlush::None, MZFlush::None, MZFlush::Sync, MZFlush::Full, MZFlush::Partial, MZFlush::Finish])
        };
        let flush = if flush == MZFlush::Finish && i + 4 < steps && !rng.chance(1, 20) { MZFlush::None } else { flush };
        // outputs smaller than a flush marker are common on purpose
        let a = Action { chunk: *rng.pick(&[0usize, 1, 2, 100, 5000, 70_000, usize::MAX]), out: *rng.pick(&[0usize, 1, 2, 3, 4, 5, 9, 64, 1000, 100_000]), flush };
        seq.push(a);
        rep.eval();
        rep.count("random_calls");
        if let Some(v) = ck.step(&mut c, &mut spec, a, false, rep) {
            let tail: Vec<Action> = seq.iter().rev().take(10).rev().cloned().collect();
            rep.violation(&v.0, format!("{} ({}; call {} of a random history)", v.1, cfg.describe(), i + 1), Json::obj(vec![("config", Json::s(&cfg.describe())), ("plain_len", Json::u(plain.len())), ("last_actions", Json::Arr(tail.iter().map(|a| Json::s(&format!("{:?}", a))).collect()))]));
            return;
        }
        if spec.ended && rng.chance(1, 2) {
            break;
        }
    }
    if let Some(v) = ck.drain(&mut c, &mut spec, false, rep) {
        rep.violation(&v.0, format!("{} ({}; drain of a random history of {} calls)", v.1, cfg.describe(), seq.len()), Json::obj(vec![("config", Json::s(&cfg.describe())), ("plain_len", Json::u(plain.len()))]));
        return;
    }
    let mut h = Hasher::new();
    h.bytes(&plain).u64(cfg.index());
    for a in &seq {
        h.u64(a.chunk as u64).u64(a.out as u64).u64(a.flush as u64);
    }
    rep.nontrivial(h.finish());
}

pub fn run(ctx: &Ctx, rep: &mut Report) {
    let mut srng = ctx.rng("subjects", 0);
    let subs = subjects(&mut srng);
    // depth 3 over every subject (quick and thorough); thorough adds depth 4 over the four small
    // subjects, one case per (subject, config, first action, second action)
    let n3 = (subs.len() * CONFIGS.len() * 48) as u64;
    let deep = ctx.thorough();
    let n4 = if deep { (DEEP_SUBJECTS * CONFIGS.len() * 48 * 48) as u64 } else { 0 };
    let n_rand = ctx.n(6000, 150_000);
    for k in ctx.cases(n3 + n4 + n_rand) {
        rep.cur_case = k;
        crate::ctx::begin_case(k);
        if k < n3 + n4 {
            let (si, ci, first, second, depth) = if k < n3 {
                ((k / 48 / CONFIGS.len() as u64) as usize, ((k / 48) % CONFIGS.len() as u64) as usize, (k % 48) as usize, None, 3usize)
            } else {
                let j = k - n3;
                ((j / 2304 / CONFIGS.len() as u64) as usize, ((j / 2304) % CONFIGS.len() as u64) as usize, ((j / 48) % 48) as usize, Some((j % 48) as usize), 4usize)
            };
            let cfg = CONFIGS[ci];
            let mut ck = Checker { plain: &subs[si], cfg, buf: vec![0u8; 100_000] };
            let c = cfg.make();
            let spec = new_spec();
            let mut seq = Vec::new();
            dfs(rep, &mut ck, &c, &spec, &mut seq, depth, first, second);
            let mut h = Hasher::new();
            h.bytes(&subs[si]).u64(cfg.index()).u64(first as u64).u64(second.map_or(99, |x| x as u64)).u64(depth as u64);
            rep.nontrivial(h.finish());
            rep.count(&format!("exhaustive_subtrees_depth{}", depth));
            if first == 35 && second.map_or(true, |x| x == 7) {
                rep.sample(|| Json::obj(vec![("config", Json::s(&cfg.describe())), ("plain_hex", Json::s(&hex_short(&subs[si], 80))), ("plain_len", Json::u(subs[si].len())), ("enumeration", Json::s(&format!("all action sequences of depth {} starting with action #{}{} over (chunk 0/1/rest) x (out 0/1/5/100000) x (None/Sync/Full/Finish), each followed by a Finish drain and a decode of the delivered bytes", depth, first, second.map_or(String::new(), |x| format!(", #{}", x)))))]));
            }
        } else {
            let mut rng = ctx.rng("random", k);
            random_history(rep, &mut rng, k);
        }
    }
    if ctx.only_case.is_none() && ctx.tier != crate::ctx::Tier::Tiny {
        rep.count("exhaustive_spaces");
        let want = (subs.len() * CONFIGS.len()) as u64 * 48u64.pow(3) / 2 + if deep { (DEEP_SUBJECTS * CONFIGS.len()) as u64 * 48u64.pow(4) / 2 } else { 0 };
        rep.gate("sequences_enumerated", want);
    }
}
