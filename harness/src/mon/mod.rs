pub mod common;
pub mod c01;
pub mod c02;
pub mod comp;
pub mod c03;
pub mod c04;
pub mod c05;
pub mod c06;
pub mod c07;
pub mod c08;
pub mod c09;
pub mod c10;
pub mod c11;
pub mod c12;
pub mod c13;
pub mod c14;
pub mod c15;
pub mod c16;
pub mod c17;
pub mod c18;
#[cfg(feature = "full")]
pub mod c19;

use crate::ctx::Ctx;
use crate::report::Report;

/// Run the monitor for ctx.prop; false if the property is unknown.
pub fn dispatch(ctx: &Ctx, rep: &mut Report) -> bool {
    match ctx.prop.as_str() {
        "C01" => c01::run(ctx, rep),
        "C02" => c02::run(ctx, rep),
        "C03" => c03::run(ctx, rep),
        "C04" => c04::run(ctx, rep),
        "C05" => c05::run(ctx, rep),
        "C06" => c06::run(ctx, rep),
        "C07" => c07::run(ctx, rep),
        "C08" => c08::run(ctx, rep),
        "C09" => c09::run(ctx, rep),
        "C10" => c10::run(ctx, rep),
        "C11" => c11::run(ctx, rep),
        "C12" => c12::run(ctx, rep),
        "C13" => c13::run(ctx, rep),
        "C14" => c14::run(ctx, rep),
        "C15" => c15::run(ctx, rep),
        "C16" => c16::run(ctx, rep),
        "C17" => c17::run(ctx, rep),
        "C18" => c18::run(ctx, rep),
        #[cfg(feature = "full")]
        "C19" => c19::run(ctx, rep),
        #[cfg(not(feature = "full"))]
        "C19" => rep.inconclusive("C19 needs the `full` harness variant (miniz_oxide features serde + block-boundary)".into()),
        _ => return false,
    }
    true
}
