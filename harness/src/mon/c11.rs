//! C11 — the window size declared in the zlib header bounds every match distance.

use super::c02::{run_one, Hist};
use super::common::{drive_core, st_name, BufMode, F_ZLIB};
use super::comp::*;
use crate::ctx::{catch, Ctx};
use crate::ffi::zlib::{self, ZResult};
use crate::gen::data;
use crate::refimpl::inflate::{inflate as ref_inflate, Opts};
use crate::report::{hex_short, Json, Report};
use crate::rng::{Hasher, Rng};
use miniz_oxide::deflate::core::{compress, TDEFLFlush, TDEFLStatus};
use miniz_oxide::inflate::core::DecompressorOxide;
use miniz_oxide::inflate::TINFLStatus;

/// Plaintext whose redundancy lies at a distance between 2^w and 32 KiB.
fn far_repeat(rng: &mut Rng, w: u8) -> Vec<u8> {
    let lo = (1usize << w) + 1;
    let hi = 32768usize;
    let mut v = Vec::new();
    let rounds = 1 + rng.below(4);
    for _ in 0..rounds {
        let xl = 8 + rng.below(3000);
        let d = if lo + xl >= hi { hi } else { rng.range((lo + xl).min(hi), hi) };
        let x = rng.bytes(xl.min(d));
        let start = v.len();
        v.extend_from_slice(&x);
        let junk = d - x.len();
        v.extend_from_slice(&rng.bytes(junk));
        v.extend_from_slice(&x);
        let _ = start;
        v.extend_from_slice(&rng.bytes(rng.clone().below(50)));
    }
    v
}

pub fn window_oracle(rep: &mut Report, cfg: &Config, out: &[u8], plain: &[u8], det: &dyn Fn(&str) -> Json, repeat_beyond: bool) {
    rep.count("streams_checked");
    rep.eval();
    if out.len() < 2 {
        return;
    }
    let cinfo = out[0] >> 4;
    let declared = 1usize << (cinfo as usize + 8).min(20);
    let wclass = format!("w{}", cfg.wbits);
    rep.count(&format!("cases_{}", wclass));
    if (cinfo as u32 + 8) > (cfg.wbits.max(8) as u32) {
        rep.violation(&format!("C11:header-declares-too-much:{}", wclass), format!("window_bits {} but the header declares 2^{} ({})", cfg.wbits, cinfo + 8, cfg.describe()), det("header"));
        return;
    }
    let r = ref_inflate(out, Opts::zlib());
    let maxd = r.stats.max_dist as usize;
    rep.max(&format!("max_distance_{}", wclass), maxd as f64, &cfg.describe());
    if maxd > declared {
        let lvl = if cfg.level == 0 { "0" } else if cfg.level == 1 { "1" } else { "2+" };
        rep.violation(
            &format!("C11:distance-exceeds-declared-window:{}:level{}:{:?}", if cfg.wbits < 12 { "w8-11" } else if cfg.wbits < 15 { "w12-14" } else { "w15" }, lvl, cfg.strategy),
            format!("header declares a {}-byte window (CINFO {}) but a match reaches back {} bytes ({})", declared, cinfo, maxd, cfg.describe()),
            det("distance"),
        );
        return;
    }
    // (i) the crate's own decoder with a ring of exactly the declared size
    let mut d = DecompressorOxide::new();
    let run = drive_core(&mut d, out, F_ZLIB, &BufMode::Ring(declared), &[out.len()], &[], None);
    if run.panic.is_some() || run.status != TINFLStatus::Done || run.out != plain {
        rep.violation(&format!("C11:not-decodable-in-declared-ring:{}", wclass), format!("own decoder with a {}-byte ring: status {} out {} of {} ({})", declared, st_name(run.status), run.out.len(), plain.len(), cfg.describe()), det("ring decode"));
        return;
    }
    rep.count(&format!("ring_decode_ok_{}", wclass));
    // (ii) zlib told to trust the header (windowBits 0), small output grants => real sliding window
    match zlib::inflate(out, 0, 64, usize::MAX) {
        ZResult::Ok(o, used) if o == plain && used == out.len() => rep.count(&format!("zlib_trust_header_ok_{}", wclass)),
        ZResult::Absent => {}
        other => {
            let w = match other {
                ZResult::Err(c, u, _) => format!("error {} at byte {}", c, u),
                ZResult::Truncated(u, _) => format!("truncated at {}", u),
                ZResult::Ok(o, u) => format!("ok but {} bytes / used {}", o.len(), u),
                ZResult::Absent => String::new(),
            };
            rep.violation(&format!("C11:zlib-trusting-header-rejects:{}", wclass), format!("zlib inflateInit2(windowBits=0) cannot decode the stream: {} ({})", w, cfg.describe()), det("zlib trust header"));
            return;
        }
    }
    if repeat_beyond {
        let mut h = Hasher::new();
        h.bytes(out).u64(cfg.index());
        rep.nontrivial(h.finish());
    }
}

/// A history that changes the compression level in mid-stream (after the header went out).
fn level_change(rep: &mut Report, rng: &mut Rng) {
    let cfg = Config { level: rng.below(11) as u8, strategy: *rng.pick(&STRATEGIES), zlib: true, wbits: 8 + rng.below(8) as u8 };
    let mut c = cfg.make();
    let w2 = 8 + rng.below(8) as u8;
    let mut plain = far_repeat(rng, w2.min(14));
    let lead = rng.bytes(rng.clone().below(40_000));
    let mut all = lead.clone();
    all.append(&mut plain);
    let plain = all;
    let mut out = Vec::new();
    let mut pos = 0usize;
    let mut obuf = vec![0u8; 200_000];
    let cut = lead.len().min(plain.len());
    let first_flush = *rng.pick(&[TDEFLFlush::Sync, TDEFLFlush::Full, TDEFLFlush::None, TDEFLFlush::Partial]);
    let new_level = rng.below(11) as u8;
    let mut log = format!("with_params({}); ", cfg.describe());
    for phase in 0..2 {
        let (end, flush) = if phase == 0 { (cut, first_flush) } else { (plain.len(), TDEFLFlush::Finish) };
        let mut guard = 0;
        loop {
            guard += 1;
            if guard > 10_000 {
                return;
            }
            let r = match catch(|| compress(&mut c, &plain[pos..end], &mut obuf, flush)) {
                Ok(r) => r,
                Err(p) => {
                    rep.violation(&format!("C11:panic:{}", p.site_file()), p.text, Json::s(&log));
                    return;
                }
            };
            pos += r.1;
            out.extend_from_slice(&obuf[..r.2]);
            if r.0 == TDEFLStatus::Done || (r.0 == TDEFLStatus::Okay && pos == end && r.2 < obuf.len()) {
                break;
            }
            if r.0 != TDEFLStatus::Okay {
                return;
            }
        }
        if phase == 0 {
            if rng.bool() {
                c.set_compression_level_raw(new_level);
                log += &format!("compress({} bytes, {:?}); set_compression_level_raw({}); ", cut, first_flush, new_level);
            } else {
                c.set_format_and_level(miniz_oxide::DataFormat::Zlib, new_level);
                log += &format!("compress({} bytes, {:?}); set_format_and_level(Zlib, {}); ", cut, first_flush, new_level);
            }
        }
    }
    log += "compress(rest, Finish)";
    rep.eval();
    rep.count("level_change_histories");
    let det = |note: &str| Json::obj(vec![("history", Json::s(&log)), ("note", Json::s(note)), ("output_hex_head", Json::s(&hex_short(&out, 64))), ("plain_len", Json::u(plain.len()))]);
    // the output must still be one zlib stream of the input
    let r = ref_inflate(&out, Opts::zlib());
    if !r.verdict.is_complete() || r.out != plain {
        // the crate documents that changing the level after the start "will likely result in
        // failure"; stream validity under level changes is not part of C11 — only counted
        rep.count("level_change_stream_not_decodable");
        return;
    }
    window_oracle(rep, &cfg, &out, &plain, &det, true);
}

/// A compressor created with a reduced window that is used for one stream, reset(), and used
/// again: the second stream must respect the declared window exactly like the first.
fn reuse_after_reset(rep: &mut Report, rng: &mut Rng, k: u64) {
    let cfg = Config { level: (k % 11) as u8, strategy: STRATEGIES[((k / 11) % 5) as usize], zlib: true, wbits: 8 + ((k / 55) % 8) as u8 };
    let mut c = cfg.make();
    let mut log = format!("with_params({}); ", cfg.describe());
    let streams = 2 + rng.below(2);
    for si in 0..streams {
        let plain = if si == 0 && rng.bool() {
            let n = rng.size_biased(60_000);
            let cls = rng.below(data::NUM_CLASSES);
            data::gen(rng, cls, n)
        } else {
            far_repeat(rng, cfg.wbits.min(14))
        };
        // the first stream is sometimes abandoned half-way
        let abandon = si == 0 && rng.chance(1, 3);
        let upto = if abandon { rng.below(plain.len() + 1) } else { plain.len() };
        let mut out = Vec::new();
        let mut obuf = vec![0u8; 200_000];
        let mut pos = 0usize;
        let mut guard = 0;
        let mut done = false;
        loop {
            guard += 1;
            if guard > 10_000 {
                return;
            }
            let flush = if abandon { TDEFLFlush::None } else { TDEFLFlush::Finish };
            let r = match catch(|| compress(&mut c, &plain[pos..upto], &mut obuf, flush)) {
                Ok(r) => r,
                Err(p) => {
                    rep.violation(&format!("C11:panic:{}", p.site_file()), p.text, Json::s(&log));
                    return;
                }
            };
            pos += r.1;
            out.extend_from_slice(&obuf[..r.2]);
            if r.0 == TDEFLStatus::Done {
                done = true;
                break;
            }
            if r.0 != TDEFLStatus::Okay {
                return;
            }
            if abandon && pos == upto && r.2 < obuf.len() {
                break;
            }
        }
        log += &format!("stream {}: {} bytes{}; ", si + 1, upto, if abandon { " (abandoned)" } else { "" });
        rep.eval();
        if done {
            rep.count(if si == 0 { "reuse_first_streams" } else { "reuse_streams_after_reset" });
            let lg = log.clone();
            let det = |note: &str| Json::obj(vec![("history", Json::s(&lg)), ("note", Json::s(note)), ("output_hex_head", Json::s(&hex_short(&out, 64))), ("plain_len", Json::u(plain.len()))]);
            let r = ref_inflate(&out, Opts::zlib());
            if !r.verdict.is_complete() || r.out != plain {
                rep.violation("C11:reuse:output-invalid", format!("stream {} of a reused compressor does not decode to its input: {:?} ({})", si + 1, r.verdict, cfg.describe()), det("reuse"));
                return;
            }
            window_oracle(rep, &cfg, &out, &plain, &det, true);
        }
        c.reset();
        log += "reset(); ";
    }
}

pub fn run(ctx: &Ctx, rep: &mut Report) {
    let n = ctx.n(48_000, 2_000_000);
    let n_lc = ctx.n(6000, 200_000);
    let n_ru = ctx.n(4400, 132_000);
    for k in ctx.cases(n + n_lc + n_ru) {
        rep.cur_case = k;
        crate::ctx::begin_case(k);
        let mut rng = ctx.rng("case", k);
        if k >= n + n_lc {
            reuse_after_reset(rep, &mut rng, k - n - n_lc);
            continue;
        }
        if k >= n {
            level_change(rep, &mut rng);
            continue;
        }
        let wbits = 8 + (k % 8) as u8;
        let level = ((k / 8) % 11) as u8;
        let strategy = STRATEGIES[((k / 88) % 5) as usize];
        let cfg = Config { level, strategy, zlib: true, wbits };
        let far = rng.chance(2, 3);
        let (plain, class) = if far {
            (far_repeat(&mut rng, wbits.min(14)), 10)
        } else {
            let cls = rng.below(data::NUM_CLASSES);
            let n = rng.size_biased(120_000);
            (data::gen(&mut rng, cls, n), cls)
        };
        let api = *rng.pick(&[Api::Compress, Api::Compress, Api::Deflate, Api::CompressToOutput]);
        let fam = *rng.pick(&[5usize, 5, 7, 3, 2]);
        let (steps, tail_out, family) = gen_schedule(&mut rng, plain.len(), api, fam);
        let h = Hist { cfg, api, plain, class, steps, tail_out: tail_out.max(64), family };
        if let Some((run, _o)) = run_one("C11", rep, &h) {
            let det = |note: &str| history_detail(&h.cfg, h.api, &h.plain, &h.steps, &run, note);
            window_oracle(rep, &cfg, &run.out, &h.plain, &det, far);
            if far {
                rep.sample(|| det("plaintext with a repeat beyond the declared window"));
            }
        }
    }
}
