//! C16 — checksums equal their definitions and compose incrementally.

use super::common::*;
use crate::ctx::{catch, Ctx};
use crate::gen::{data, grammar};
use crate::refimpl::checksums::{adler32, crc32};
use crate::report::{hex_short, Json, Report};
use crate::rng::{Hasher, Rng};
use miniz_oxide::deflate::core::{compress, create_comp_flags_from_zip_params, deflate_flags, CompressorOxide, TDEFLFlush, TDEFLStatus};
use miniz_oxide::inflate::core::{decompress_with_limit, DecompressorOxide};
use miniz_oxide::inflate::TINFLStatus;
use miniz_oxide::mz_adler32_oxide;
use miniz_oxide_c_api::{mz_adler32, mz_crc32, mz_crc32_oxide, mz_deflate, mz_deflateEnd, mz_deflateInit2, mz_inflate, mz_inflateEnd, mz_inflateInit2, mz_stream};

const LENS: [usize; 22] = [0, 1, 2, 15, 16, 17, 31, 32, 33, 63, 64, 65, 255, 256, 5551, 5552, 5553, 11104, 65535, 65536, 65537, 1 << 20];

fn buffer(rng: &mut Rng, n: usize) -> (Vec<u8>, &'static str) {
    match rng.below(4) {
        0 => (vec![0xffu8; n], "all_ff"),
        1 => (vec![0u8; n], "zeros"),
        2 => (rng.bytes(n), "random"),
        _ => {
            let mut v = vec![0xffu8; n];
            for _ in 0..rng.below(8) {
                if n > 0 {
                    let i = rng.below(n);
                    v[i] = rng.byte();
                }
            }
            (v, "mostly_ff")
        }
    }
}

/// the four update functions under test, by name
fn call(which: usize, start: u32, data: &[u8]) -> Result<u32, crate::ctx::Panic> {
    catch(|| match which {
        0 => mz_adler32_oxide(start, data),
        1 => mz_crc32_oxide(start, data),
        2 => unsafe { mz_adler32(start as libc::c_ulong, data.as_ptr(), data.len()) as u32 },
        _ => unsafe { mz_crc32(start as libc::c_ulong, data.as_ptr(), data.len()) as u32 },
    })
}
const FN_NAMES: [&str; 4] = ["mz_adler32_oxide", "mz_crc32_oxide", "mz_adler32 (C)", "mz_crc32 (C)"];

fn reference(which: usize, start: u32, data: &[u8]) -> u32 {
    if which % 2 == 0 {
        adler32(start, data)
    } else {
        crc32(start, data)
    }
}

fn update_functions(rep: &mut Report, rng: &mut Rng, k: u64, thorough: bool) {
    let n = if (k as usize) < LENS.len() * 4 { LENS[k as usize % LENS.len()] } else { rng.size_biased(if thorough { 300_000 } else { 70_000 }) };
    let (buf, class) = buffer(rng, n);
    // start value: itself a checksum of a random prefix
    let plen = rng.below(300);
    let prefix = rng.bytes(plen);
    for which in 0..4 {
        let init = if which % 2 == 0 { 1 } else { 0 };
        let start = if rng.chance(1, 4) { init } else { reference(which, init, &prefix) };
        let want = reference(which, start, &buf);
        rep.eval();
        rep.count(&format!("calls_{}", FN_NAMES[which].split(' ').next().unwrap()));
        let det = |what: String| Json::obj(vec![("function", Json::s(FN_NAMES[which])), ("start", Json::s(&format!("{:08x}", start))), ("len", Json::u(n)), ("class", Json::s(class)), ("data_hex", Json::s(&hex_short(&buf, 64))), ("what", Json::s(&what))]);
        match call(which, start, &buf) {
            Ok(got) if got == want => {}
            Ok(got) => {
                rep.violation(&format!("C16:wrong-checksum:{}", FN_NAMES[which]), format!("{}(start {:08x}, {} bytes of {}) = {:08x}, definition gives {:08x}", FN_NAMES[which], start, n, class, got, want), det("one pass".into()));
                continue;
            }
            Err(p) => {
                rep.violation(&format!("C16:panic:{}", FN_NAMES[which]), p.text, det("panic".into()));
                continue;
            }
        }
        // split invariance: every split point for short buffers, random multi-way splits otherwise
        let splits: Vec<Vec<usize>> = if n <= 2048 && (n <= 300 || thorough || k % 8 == 0) {
            (0..=n).map(|c| vec![c]).collect()
        } else {
            let mut v: Vec<Vec<usize>> = vec![vec![0], vec![n], vec![n / 2]];
            for _ in 0..12 {
                let mut cuts: Vec<usize> = (0..1 + rng.below(6)).map(|_| rng.below(n + 1)).collect();
                cuts.sort();
                v.push(cuts);
            }
            v
        };
        for cuts in &splits {
            let mut acc = start;
            let mut prev = 0usize;
            let mut bad = false;
            for &c in cuts.iter().chain(std::iter::once(&n)) {
                // (empty pieces are passed with a valid, non-null pointer)
                match call(which, acc, &buf[prev..c]) {
                    Ok(v) => acc = v,
                    Err(p) => {
                        rep.violation(&format!("C16:panic:{}", FN_NAMES[which]), p.text, det(format!("split {:?}", cuts)));
                        bad = true;
                        break;
                    }
                }
                prev = c;
            }
            rep.count("split_evaluations");
            if !bad && acc != want {
                rep.violation(
                    &format!("C16:split-dependent:{}", FN_NAMES[which]),
                    format!("{}: feeding {} bytes split at {:?} (start {:08x}) gives {:08x} but one pass / the definition gives {:08x}", FN_NAMES[which], n, cuts, start, acc, want),
                    det(format!("split {:?}", cuts)),
                );
                break;
            }
        }
        if n >= 16 && start != init {
            let mut h = Hasher::new();
            h.bytes(&buf).u64(start as u64).u64(which as u64);
            rep.nontrivial(h.finish());
        }
    }
    // NULL pointer convention of the C functions: documented to return the initial value
    unsafe {
        if mz_adler32(12345, std::ptr::null(), 0) != 1 || mz_crc32(12345, std::ptr::null(), 0) != 0 {
            rep.violation("C16:null-convention", "mz_adler32/mz_crc32 with NULL did not return the initial value".into(), Json::Null);
        }
    }
    rep.sample(|| Json::obj(vec![("len", Json::u(n)), ("class", Json::s(class)), ("functions", Json::s("mz_adler32_oxide, mz_crc32_oxide, mz_adler32, mz_crc32: one pass and every split point (<= 2048 bytes) / random multi-way splits, start = checksum of a random prefix"))]));
}

/// Running checksum exposed by a compressor == Adler-32 of all input consumed so far.
fn compressor_running(rep: &mut Report, rng: &mut Rng) {
    let n = rng.size_biased(150_000);
    let cls = rng.below(data::NUM_CLASSES);
    let plain = data::gen(rng, cls, n);
    let level = rng.below(11) as i32;
    let zl = rng.bool();
    // the checksum is maintained for the zlib format or when TDEFL_COMPUTE_ADLER32 is requested
    let mut flags = create_comp_flags_from_zip_params(level, if zl { 15 } else { -15 }, rng.below(5) as i32);
    if !zl {
        flags |= deflate_flags::TDEFL_COMPUTE_ADLER32;
    }
    let mut c = CompressorOxide::new(flags);
    let mut pos = 0usize;
    let mut calls = 0;
    loop {
        calls += 1;
        if calls > 200_000 {
            break;
        }
        let chunk = rng.size_biased(20_000);
        let end = (pos + chunk).min(plain.len());
        let fin = end == plain.len();
        let flush = if fin { TDEFLFlush::Finish } else { *rng.pick(&[TDEFLFlush::None, TDEFLFlush::None, TDEFLFlush::Sync, TDEFLFlush::Full]) };
        let mut out = vec![0u8; *rng.pick(&[1usize, 10, 500, 100_000])];
        let r = match catch(|| compress(&mut c, &plain[pos..if fin { plain.len() } else { end }], &mut out, flush)) {
            Ok(r) => r,
            Err(_) => return,
        };
        pos += r.1;
        rep.eval();
        rep.count("compressor_running_checks");
        let want = adler32(1, &plain[..pos]);
        if c.adler32() != want {
            rep.violation("C16:compressor-running-adler", format!("after consuming {} bytes CompressorOxide::adler32() = {:08x}, Adler-32 of the consumed input = {:08x} (flags {:#x})", pos, c.adler32(), want, flags), Json::obj(vec![("plain_hex", Json::s(&hex_short(&plain, 100))), ("consumed", Json::u(pos)), ("call", Json::u(calls))]));
            return;
        }
        if r.0 == TDEFLStatus::Done {
            break;
        }
        if r.0 != TDEFLStatus::Okay {
            return;
        }
    }
    let mut h = Hasher::new();
    h.bytes(&plain).u64(flags as u64);
    if n >= 16 {
        rep.nontrivial(h.finish());
    }
}

/// Running checksum exposed by a zlib decoder == Adler-32 of all output produced so far.
fn decoder_running(rep: &mut Report, rng: &mut Rng) {
    let go = if rng.bool() { grammar::GenOpts::medium(true) } else { grammar::GenOpts::large(true) };
    let g = grammar::random_stream(rng, &go);
    let ring = rng.bool();
    let size = if ring { 32768 } else { g.plain.len() + 1 };
    let mut buf = vec![0u8; size];
    let mut d = DecompressorOxide::new();
    let mut in_pos = 0;
    let mut out_pos = 0;
    let mut produced = 0usize;
    let mut calls = 0;
    loop {
        calls += 1;
        if calls > 400_000 {
            return;
        }
        // (zero-length input calls included: a call without new input can still produce output)
        let chunk = if rng.chance(1, 4) { 0 } else { 1 + rng.size_biased(3000) };
        let end = (in_pos + chunk).min(g.bytes.len());
        let more = end < g.bytes.len();
        let budget = *rng.pick(&[usize::MAX, usize::MAX, 1, 7, 300, 5000]);
        let flags = F_ZLIB | if ring { 0 } else { F_FLAT } | if more { F_MORE } else { 0 };
        let r = match catch(|| decompress_with_limit(&mut d, &g.bytes[in_pos..end], &mut buf, out_pos, budget, flags)) {
            Ok(r) => r,
            Err(_) => return,
        };
        in_pos += r.1;
        produced += r.2;
        out_pos += r.2;
        if ring && out_pos >= size {
            out_pos = 0;
        }
        rep.eval();
        rep.count("decoder_running_checks");
        if (r.0 as i8) >= 0 {
            if let Some(a) = d.adler32() {
                let want = adler32(1, &g.plain[..produced.min(g.plain.len())]);
                if a != want {
                    rep.violation("C16:decoder-running-adler", format!("after producing {} bytes DecompressorOxide::adler32() = {:08x}, Adler-32 of the produced output = {:08x} ({}, status {})", produced, a, want, if ring { "ring" } else { "flat" }, st_name(r.0)), Json::obj(vec![("stream_hex", Json::s(&hex_short(&g.bytes, 200))), ("call", Json::u(calls))]));
                    return;
                }
            } else if produced > 0 {
                rep.violation("C16:decoder-adler-missing", format!("zlib decoder exposes no checksum after producing {} bytes", produced), Json::Null);
                return;
            }
        }
        match r.0 {
            TINFLStatus::Done => break,
            TINFLStatus::NeedsMoreInput | TINFLStatus::HasMoreOutput => {
                if r.1 == 0 && r.2 == 0 && !more && budget > 0 {
                    return;
                }
            }
            _ => return,
        }
    }
    let mut h = Hasher::new();
    h.bytes(&g.bytes).u64(ring as u64);
    if g.plain.len() >= 16 {
        rep.nontrivial(h.finish());
    }
}

/// mz_stream.adler after mz_deflate / mz_inflate.
fn stream_adler(rep: &mut Report, rng: &mut Rng) {
    let n = rng.size_biased(120_000);
    let cls = rng.below(data::NUM_CLASSES);
    let plain = data::gen(rng, cls, n);
    // deflate side
    let mut s = mz_stream::default();
    // zlib framing or raw deflate: the C stream maintains its adler field in both
    let wb = if rng.chance(1, 3) { -15 } else { 15 };
    rep.count(if wb < 0 { "mz_deflate_adler_raw_streams" } else { "mz_deflate_adler_zlib_streams" });
    if unsafe { mz_deflateInit2(&mut s, rng.below(11) as i32, 8, wb, 9, 0) } != 0 {
        return;
    }
    let mut comp = Vec::new();
    let mut pos = 0usize;
    let mut obuf = vec![0u8; *rng.pick(&[1usize, 64, 4096, 200_000])];
    let mut calls = 0;
    loop {
        calls += 1;
        if calls > 400_000 {
            break;
        }
        let end = (pos + 1 + rng.size_biased(30_000)).min(plain.len());
        let fin = end == plain.len();
        s.next_in = unsafe { plain.as_ptr().add(pos) };
        s.avail_in = (end - pos) as u32;
        s.next_out = obuf.as_mut_ptr();
        s.avail_out = obuf.len() as u32;
        let rc = unsafe { mz_deflate(&mut s, if fin { 4 } else { *rng.pick(&[0, 0, 2]) }) };
        let cons = (end - pos) - s.avail_in as usize;
        let w = obuf.len() - s.avail_out as usize;
        pos += cons;
        comp.extend_from_slice(&obuf[..w]);
        rep.eval();
        rep.count("mz_deflate_adler_checks");
        let want = adler32(1, &plain[..pos]);
        if s.adler as u32 != want {
            rep.violation("C16:mz_stream-adler-deflate", format!("after mz_deflate consumed {} bytes in total, stream.adler = {:08x}, Adler-32 of that input = {:08x}", pos, s.adler, want), Json::obj(vec![("plain_hex", Json::s(&hex_short(&plain, 100))), ("call", Json::u(calls))]));
            break;
        }
        if rc == 1 || rc < 0 && rc != -5 {
            break;
        }
    }
    unsafe { mz_deflateEnd(&mut s) };
    if wb < 0 {
        // raw stream: the decoder computes no checksum (the property speaks of zlib decoders)
        return;
    }
    // inflate side
    let mut s = mz_stream::default();
    if unsafe { mz_inflateInit2(&mut s, 15) } != 0 {
        return;
    }
    let mut pos = 0usize;
    let mut delivered = 0usize;
    let mut obuf = vec![0u8; *rng.pick(&[1usize, 100, 5000, 40_000, 200_000])];
    let mut calls = 0;
    loop {
        calls += 1;
        if calls > 400_000 {
            break;
        }
        let end = if rng.chance(1, 4) { pos } else { (pos + 1 + rng.size_biased(5000)).min(comp.len()) };
        s.next_in = unsafe { comp.as_ptr().add(pos) };
        s.avail_in = (end - pos) as u32;
        s.next_out = obuf.as_mut_ptr();
        s.avail_out = obuf.len() as u32;
        let rc = unsafe { mz_inflate(&mut s, 0) };
        let cons = (end - pos) - s.avail_in as usize;
        let w = obuf.len() - s.avail_out as usize;
        pos += cons;
        delivered += w;
        rep.eval();
        rep.count("mz_inflate_adler_checks");
        if rc >= 0 && delivered > 0 {
            // the wrapper checksums bytes when they are decoded into its 32 KiB window, which may be
            // before they are delivered: adler == Adler-32(plain[..k]) for some delivered <= k <=
            // delivered + 32768, and k == delivered whenever output space was left
            let space_left = s.avail_out > 0;
            let hi = if space_left { delivered } else { (delivered + 32768).min(plain.len()) };
            let mut a = adler32(1, &plain[..delivered.min(plain.len())]);
            let mut ok = a == s.adler as u32;
            let mut k = delivered;
            while !ok && k < hi {
                a = adler32(a, &plain[k..k + 1]);
                k += 1;
                ok = a == s.adler as u32;
            }
            if !ok {
                rep.violation("C16:mz_stream-adler-inflate", format!("after mz_inflate delivered {} bytes (output space left: {}), stream.adler = {:08x} matches no Adler-32(plaintext[..k]) for k in {}..={}", delivered, space_left, s.adler, delivered, hi), Json::obj(vec![("plain_hex", Json::s(&hex_short(&plain, 100))), ("call", Json::u(calls))]));
                break;
            }
        }
        if rc == 1 || (rc < 0 && rc != -5) || (cons == 0 && w == 0 && pos >= comp.len()) {
            break;
        }
    }
    unsafe { mz_inflateEnd(&mut s) };
    let mut h = Hasher::new();
    h.bytes(&plain);
    if n >= 16 {
        rep.nontrivial(h.finish());
    }
}

/// Adler-32 at the edges of its modular arithmetic: for buffer lengths 1..=40 (both sides of
/// every short-buffer / block-size special case) and lengths around 5552, the starting value is
/// chosen so that the unreduced low sum and/or high sum ends exactly on 65521 + d, d in -2..=2.
/// Every pair (a, b) with a, b <= 65520 is the checksum of some prefix, so these are legal
/// starting values.
fn adler_boundaries(rep: &mut Report, rng: &mut Rng, k: u64) {
    const M: u64 = 65521;
    let lens: [usize; 52] = [1, 2, 3, 4, 5, 6, 7, 8, 9, 10, 11, 12, 13, 14, 15, 16, 17, 18, 19, 20, 21, 22, 23, 24, 25, 26, 27, 28, 29, 30, 31, 32, 33, 34, 35, 36, 37, 38, 39, 40, 47, 48, 63, 64, 65, 5551, 5552, 5553, 11104, 256, 257, 4096];
    let n = lens[(k % lens.len() as u64) as usize];
    let buf: Vec<u8> = match rng.below(3) {
        0 => vec![0xff; n],
        1 => (0..n).map(|_| rng.below(4) as u8).collect(),
        _ => rng.bytes(n),
    };
    let sum: u64 = buf.iter().map(|&b| b as u64).sum();
    for da in -2i64..=2 {
        for db in -2i64..=2 {
            // a0 such that a0 + sum == M + da (mod M)
            let a0 = ((M as i64 + da - (sum % M) as i64).rem_euclid(M as i64)) as u64;
            // b grows by sum over i of (a0 + prefix_sum_i)
            let mut acc = 0u64;
            let mut a = a0;
            for &x in &buf {
                a += x as u64;
                acc += a;
            }
            let b0 = ((M as i64 + db - (acc % M) as i64).rem_euclid(M as i64)) as u64;
            let start = ((b0 as u32) << 16) | a0 as u32;
            let want = adler32(start, &buf);
            for which in [0usize, 2] {
                rep.eval();
                rep.count("adler_modular_boundary_cases");
                match call(which, start, &buf) {
                    Ok(got) if got == want => {}
                    Ok(got) => rep.violation(
                        &format!("C16:wrong-checksum:{}", FN_NAMES[which]),
                        format!("{}(start {:08x}, {} bytes) = {:08x}, definition gives {:08x} (sums end {} / {} away from the modulus)", FN_NAMES[which], start, n, got, want, da, db),
                        Json::obj(vec![("function", Json::s(FN_NAMES[which])), ("start", Json::s(&format!("{:08x}", start))), ("len", Json::u(n)), ("data_hex", Json::s(&hex_short(&buf, 64))), ("what", Json::s("modular boundary"))]),
                    ),
                    Err(p) => rep.violation(&format!("C16:panic:{}", p.site_file()), format!("{} panicked: {}", FN_NAMES[which], p.text), Json::Null),
                }
                // and split in two at a random point
                if n >= 2 {
                    let cut = 1 + rng.below(n - 1);
                    if let (Ok(m), true) = (call(which, start, &buf[..cut]), true) {
                        if let Ok(got) = call(which, m, &buf[cut..]) {
                            if got != want {
                                rep.violation(
                                    &format!("C16:split-dependent:{}", FN_NAMES[which]),
                                    format!("{}: {} bytes split at {} (start {:08x}) gives {:08x}, one pass / definition {:08x}", FN_NAMES[which], n, cut, start, got, want),
                                    Json::obj(vec![("start", Json::s(&format!("{:08x}", start))), ("len", Json::u(n)), ("cut", Json::u(cut)), ("data_hex", Json::s(&hex_short(&buf, 64)))]),
                                );
                            }
                        }
                    }
                }
            }
            let mut h = Hasher::new();
            h.bytes(&buf).u64(start as u64);
            rep.nontrivial(h.finish());
        }
    }
}

pub fn run(ctx: &Ctx, rep: &mut Report) {
    let n_u = ctx.n(1200, 40_000);
    let n_c = ctx.n(300, 8000);
    let n_d = ctx.n(300, 8000);
    let n_s = ctx.n(200, 6000);
    let n_b = ctx.n(520, 10_400);
    for k in ctx.cases(n_u + n_c + n_d + n_s + n_b) {
        rep.cur_case = k;
        crate::ctx::begin_case(k);
        let mut rng = ctx.rng("case", k);
        if k < n_u {
            update_functions(rep, &mut rng, k, ctx.thorough());
        } else if k < n_u + n_c {
            compressor_running(rep, &mut rng);
        } else if k < n_u + n_c + n_d {
            decoder_running(rep, &mut rng);
        } else if k < n_u + n_c + n_d + n_s {
            stream_adler(rep, &mut rng);
        } else {
            adler_boundaries(rep, &mut rng, k - (n_u + n_c + n_d + n_s));
        }
    }
    rep.set_insert("adler_backend", if cfg!(feature = "simd") { "simd-adler32 (feature simd)" } else { "adler2 (scalar)" });
}
