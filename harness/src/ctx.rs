//! Run context: tier, seed, sharding, panic capture and the in-call hang watchdog.

use crate::rng::Rng;
use std::cell::RefCell;
use std::panic::{catch_unwind, AssertUnwindSafe};
use std::sync::atomic::{AtomicBool, AtomicU64, Ordering};

#[derive(Clone, Copy, Debug, PartialEq, Eq)]
pub enum Tier {
    Quick,
    Thorough,
    /// tiny workloads for Miri / valgrind
    Tiny,
}

impl Tier {
    pub fn name(&self) -> &'static str {
        match self {
            Tier::Quick => "quick",
            Tier::Thorough => "thorough",
            Tier::Tiny => "tiny",
        }
    }
}

#[derive(Clone, Debug)]
pub struct Ctx {
    pub prop: String,
    pub tier: Tier,
    pub seed: u64,
    pub shard: u64,
    pub nshards: u64,
    pub only_case: Option<u64>,
    /// free-form sub-workload selector (e.g. "asan", "miri", "guard")
    pub mode: String,
    /// multiplies workload sizes (default 1.0)
    pub scale: f64,
}

impl Ctx {
    pub fn quick(&self) -> bool {
        self.tier == Tier::Quick
    }
    pub fn thorough(&self) -> bool {
        self.tier == Tier::Thorough
    }
    /// choose a count by tier, scaled
    pub fn n(&self, quick: u64, thorough: u64) -> u64 {
        // per-property budget factors (quick, thorough), set after the allocator tuning made most
        // workloads several times cheaper: quick checks stay around 10-40 s each on 16 cores,
        // thorough ones around 4-9 min. Enumerations of fixed size are not affected.
        let (fq, ft): (u64, u64) = match self.prop.as_str() {
            "C01" => (4, 6),
            "C02" => (3, 4),
            "C03" => (1, 4),
            "C04" => (4, 1),
            "C05" => (2, 5),
            "C06" => (3, 1),
            "C07" => (2, 1),
            "C08" => (3, 2),
            "C09" => (2, 2),
            "C10" => (4, 8),
            "C11" => (4, 2),
            "C12" => (6, 2),
            "C13" => (4, 5),
            "C14" => (2, 1),
            "C15" => (3, 3),
            "C18" => (3, 1),
            "C19" => (2, 1),
            _ => (1, 1),
        };
        let base = match self.tier {
            Tier::Quick => quick * fq,
            Tier::Thorough => thorough * ft,
            Tier::Tiny => (quick / 200).max(4),
        };
        ((base as f64 * self.scale) as u64).max(1)
    }
    /// case indices of this shard among 0..n
    pub fn cases(&self, n: u64) -> Vec<u64> {
        if let Some(k) = self.only_case {
            return if k < n { vec![k] } else { vec![] };
        }
        // diagonal assignment: case lists with a period that is a multiple of the shard count
        // (e.g. 48 first actions x configs) are still spread evenly over the shards
        (0..n).filter(|k| (k + k / self.nshards) % self.nshards == self.shard).collect()
    }
    /// independent generator for (sub-workload, case)
    pub fn rng(&self, sub: &str, case: u64) -> Rng {
        let tag = format!("{}/{}", self.prop, sub);
        Rng::for_case(self.seed, &tag, self.tier.name(), case)
    }
}

thread_local! {
    static LAST_PANIC: RefCell<Option<String>> = const { RefCell::new(None) };
}

pub fn install_panic_hook() {
    std::panic::set_hook(Box::new(|info| {
        let loc = info
            .location()
            .map(|l| {
                let f = l.file();
                // normalise to a repository-relative path wherever the code under test lives
                let f = if let Some(i) = f.rfind("miniz_oxide/src/") {
                    &f[i..]
                } else if let Some(i) = f.rfind("/src/") {
                    &f[i + 1..]
                } else {
                    f
                };
                format!("{}:{}", f, l.line())
            })
            .unwrap_or_else(|| "?".into());
        let msg = if let Some(s) = info.payload().downcast_ref::<&str>() {
            s.to_string()
        } else if let Some(s) = info.payload().downcast_ref::<String>() {
            s.clone()
        } else {
            "<non-string panic>".to_string()
        };
        LAST_PANIC.with(|p| *p.borrow_mut() = Some(format!("{} @ {}", msg, loc)));
    }));
}

/// Where (file:line, line number stripped for signatures) and what the last panic was.
#[derive(Debug, Clone)]
pub struct Panic {
    pub text: String,
}

impl Panic {
    /// file name of the panic site, without line number (for known-finding signatures)
    pub fn site_file(&self) -> String {
        let loc = self.text.rsplit(" @ ").next().unwrap_or("?");
        loc.split(':').next().unwrap_or("?").to_string()
    }
}

/// Run `f`, catching a panic from the code under test.
pub fn catch<T>(f: impl FnOnce() -> T) -> Result<T, Panic> {
    WATCH_IN_CALL.store(true, Ordering::Relaxed);
    WATCH_CALLS.fetch_add(1, Ordering::Relaxed);
    let r = catch_unwind(AssertUnwindSafe(f));
    WATCH_IN_CALL.store(false, Ordering::Relaxed);
    match r {
        Ok(v) => Ok(v),
        Err(_) => {
            let text = LAST_PANIC.with(|p| p.borrow_mut().take()).unwrap_or_else(|| "panic".into());
            Err(Panic { text })
        }
    }
}

/// Shared-memory heartbeat (8 bytes: current case id + 1) so that the orchestrator can
/// attribute an abnormal process end to a case.
static HB_PTR: std::sync::atomic::AtomicPtr<u64> = std::sync::atomic::AtomicPtr::new(std::ptr::null_mut());

pub fn open_heartbeat(path: &str) {
    use std::os::unix::io::AsRawFd;
    let f = match std::fs::OpenOptions::new().read(true).write(true).create(true).truncate(true).open(path) {
        Ok(f) => f,
        Err(_) => return,
    };
    if f.set_len(4096).is_err() {
        return;
    }
    let p = unsafe { libc::mmap(std::ptr::null_mut(), 4096, libc::PROT_READ | libc::PROT_WRITE, libc::MAP_SHARED, f.as_raw_fd(), 0) };
    if p != libc::MAP_FAILED {
        HB_PTR.store(p as *mut u64, Ordering::Relaxed);
    }
}

/// Announce the case about to run (watchdog attribution + heartbeat file).
pub fn begin_case(k: u64) {
    WATCH_CASE.store(k, Ordering::Relaxed);
    let p = HB_PTR.load(Ordering::Relaxed);
    if !p.is_null() {
        unsafe { std::ptr::write_volatile(p, k + 1) };
    }
}

pub fn limit_memory(mb: u64) {
    if mb == 0 {
        return;
    }
    let lim = libc::rlimit { rlim_cur: mb << 20, rlim_max: mb << 20 };
    unsafe {
        libc::setrlimit(libc::RLIMIT_AS, &lim);
    }
}

pub static WATCH_IN_CALL: AtomicBool = AtomicBool::new(false);
pub static WATCH_CALLS: AtomicU64 = AtomicU64::new(0);
pub static WATCH_CASE: AtomicU64 = AtomicU64::new(0);

fn process_cpu_secs() -> f64 {
    let mut ts = libc::timespec { tv_sec: 0, tv_nsec: 0 };
    unsafe {
        libc::clock_gettime(libc::CLOCK_PROCESS_CPUTIME_ID, &mut ts);
    }
    ts.tv_sec as f64 + ts.tv_nsec as f64 * 1e-9
}

/// Watchdog: if one library call (between `catch` entry and exit) burns more than `limit_s`
/// CPU seconds, print a HANG line naming the case and exit with status 86. The orchestrator
/// turns that into a violation for the properties that state "returns" (C02, C05, C13, C14) and
/// into "inconclusive" elsewhere.
pub fn start_watchdog(limit_s: f64, case_limit_s: f64) {
    std::thread::spawn(move || {
        let mut last_calls = u64::MAX;
        let mut cpu_at_change = process_cpu_secs();
        let mut last_case = u64::MAX;
        let mut cpu_at_case = process_cpu_secs();
        loop {
            std::thread::sleep(std::time::Duration::from_millis(500));
            let calls = WATCH_CALLS.load(Ordering::Relaxed);
            let in_call = WATCH_IN_CALL.load(Ordering::Relaxed);
            let cpu = process_cpu_secs();
            let case = WATCH_CASE.load(Ordering::Relaxed);
            if case != last_case {
                last_case = case;
                cpu_at_case = cpu;
            } else if cpu - cpu_at_case > case_limit_s {
                println!("SLOW case={} cpu_in_case_s={:.0}", case, cpu - cpu_at_case);
                std::process::exit(87);
            }
            if calls != last_calls || !in_call {
                last_calls = calls;
                cpu_at_change = cpu;
                continue;
            }
            if cpu - cpu_at_change > limit_s {
                println!(
                    "HANG case={} call_no={} cpu_in_call_s={:.0}",
                    WATCH_CASE.load(Ordering::Relaxed),
                    calls,
                    cpu - cpu_at_change
                );
                std::process::exit(86);
            }
        }
    });
}
