//! Self-test of the harness' own oracles and generators (no code under test involved):
//! grammar generator ⇄ reference decoder ⇄ system zlib; reference checksums ⇄ libz.
//! A failure here is a harness bug and makes every check inconclusive, never a violation.

use crate::ffi::zlib::{self, ZResult};
use crate::gen::{data, grammar};
use crate::refimpl::checksums;
use crate::refimpl::inflate::{inflate, lendist, Opts, Verdict};
use crate::rng::Rng;

pub fn run(seed: u64) -> bool {
    let mut ok = true;
    let mut fail = |msg: String| {
        println!("SELFTEST-FAIL {}", msg);
        ok = false;
    };
    // tables
    let ld = lendist();
    if ld.len_base[0] != 3 || ld.len_base[27] != 227 || ld.len_extra[27] != 5 || ld.dist_base[29] != 24577 || ld.dist_extra[29] != 13 {
        fail(format!("lendist tables wrong: {:?} {:?}", ld.len_base, ld.dist_base));
    }
    if crate::refimpl::inflate::cl_order() != [16, 17, 18, 0, 8, 7, 9, 6, 10, 5, 11, 4, 12, 3, 13, 2, 14, 1, 15] {
        fail("cl_order".into());
    }
    // checksums: known vectors
    if checksums::adler32(1, b"Wikipedia") != 0x11E6_0398 {
        fail("adler32 vector".into());
    }
    if checksums::crc32(0, b"123456789") != 0xCBF4_3926 {
        fail("crc32 vector".into());
    }
    let mut n_streams = 0u32;
    let mut n_zlib_agree = 0u32;
    for k in 0..2400u64 {
        let mut rng = Rng::for_case(seed, "selftest", "gen", k);
        let zl = rng.bool();
        let mut o = match k % 3 {
            0 => grammar::GenOpts::small(zl),
            1 => grammar::GenOpts::medium(zl),
            _ => grammar::GenOpts::large(zl),
        };
        o.random_header = rng.bool();
        if k % 3 == 2 {
            o.max_tokens = 4000;
        }
        let s = grammar::random_stream(&mut rng, &o);
        let r = inflate(&s.bytes, Opts::fmt(zl));
        match r.verdict {
            Verdict::Complete { consumed, end_bit } => {
                if consumed != s.bytes.len() || r.out != s.plain || (end_bit != s.end_bit) {
                    fail(format!("case {}: refimpl != construction (consumed {} of {}, out {} vs {}, end_bit {} vs {})", k, consumed, s.bytes.len(), r.out.len(), s.plain.len(), end_bit, s.end_bit));
                }
            }
            v => fail(format!("case {}: refimpl rejects generated stream: {:?}", k, v)),
        }
        n_streams += 1;
        if zlib::available() {
            match zlib::inflate(&s.bytes, if zl { 15 } else { -15 }, 4096, usize::MAX) {
                ZResult::Ok(out, used) => {
                    if out != s.plain || used != s.bytes.len() {
                        fail(format!("case {}: zlib output differs from construction", k));
                    } else {
                        n_zlib_agree += 1;
                    }
                }
                e => fail(format!("case {}: zlib rejects generated stream: {:?}", k, match e { ZResult::Err(c, u, _) => format!("err {} at {}", c, u), ZResult::Truncated(u, _) => format!("trunc at {}", u), _ => "?".into() })),
            }
        }
    }
    // zlib as producer -> refimpl
    let mut n_prod = 0u32;
    if zlib::available() {
        for k in 0..600u64 {
            let mut rng = Rng::for_case(seed, "selftest", "zprod", k);
            let n = rng.size_biased(100_000);
            let cls = rng.below(data::NUM_CLASSES);
            let p = data::gen(&mut rng, cls, n);
            let level = rng.below(10) as i32;
            let strat = rng.below(5) as i32;
            let wb = rng.range(9, 15) as i32;
            let raw = rng.bool();
            let mem = rng.range(1, 9) as i32;
            let z = match zlib::deflate(&p, level, if raw { -wb } else { wb }, mem, strat, 0, 0) {
                Some(z) => z,
                None => {
                    fail(format!("zlib deflate failed l{} s{} w{}", level, strat, wb));
                    continue;
                }
            };
            let r = inflate(&z, Opts::fmt(!raw));
            if !r.verdict.is_complete() || r.out != p {
                fail(format!("zprod {}: refimpl cannot decode zlib output: {:?}", k, r.verdict));
            }
            n_prod += 1;
        }
        for k in 0..600u64 {
            let mut rng = Rng::for_case(seed, "selftest", "cks", k);
            let n = *rng.pick(&[0usize, 1, 15, 16, 17, 5551, 5552, 5553, 65536, 100_000]);
            let n = if rng.bool() { n } else { rng.size_biased(70_000) };
            let buf = match rng.below(3) {
                0 => vec![0xffu8; n],
                1 => vec![0u8; n],
                _ => rng.bytes(n),
            };
            let pl = rng.below(50);
            let sa = checksums::adler32(1, &rng.bytes(pl));
            let pl = rng.below(50);
            let sc = checksums::crc32(0, &rng.bytes(pl));
            if Some(checksums::adler32(sa, &buf)) != zlib::adler32(sa, &buf) {
                fail(format!("adler32 != libz for len {}", n));
            }
            if Some(checksums::crc32(sc, &buf)) != zlib::crc32(sc, &buf) {
                fail(format!("crc32 != libz for len {}", n));
            }
        }
    }
    println!(
        "SELFTEST streams={} zlib_agree={} zlib_produced={} secondary_oracle={} result={}",
        n_streams,
        n_zlib_agree,
        n_prod,
        if zlib::available() { "zlib" } else { "absent" },
        if ok { "ok" } else { "FAIL" }
    );
    ok
}
