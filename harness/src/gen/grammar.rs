//! Grammar-based generator of *valid* DEFLATE / zlib streams with the plaintext known by
//! construction. Independent of the crate under test (own canonical-code assignment, own
//! bit writer, length/distance tables computed by `refimpl::inflate::lendist`).

use crate::refimpl::bitio::BitWriter;
use crate::refimpl::checksums::adler32;
use crate::refimpl::inflate::{cl_order, lendist, LenDist};
use crate::rng::Rng;

#[derive(Clone, Copy, Debug, PartialEq, Eq)]
pub enum Tok {
    Lit(u8),
    Match { len: u16, dist: u16 },
    /// FAULT (fixed blocks only): a raw literal/length symbol 286 or 287 followed by distance
    /// symbol 0
    BadLitLen(u16),
    /// FAULT (fixed blocks only): a valid length followed by distance symbol 30 or 31
    BadDistSym { len: u16, dsym: u8 },
    /// FAULT: in a block whose distance code is a single 1-bit code, emit the undefined bit
    /// pattern `1` for the distance
    UndefDist { len: u16 },
}

/// Spec violations injected into a dynamic block header (exactly one per stream).
#[derive(Clone, Copy, Debug, PartialEq, Eq)]
pub enum DynFault {
    None,
    OverLit,
    OverDist,
    /// more than 2^l literal/length symbols, all of length l (l = 1 or 2), nothing longer
    OverLitFlat(u8),
    /// more than 2^l distance symbols, all of length l (l = 1 or 2), nothing longer
    OverDistFlat(u8),
    OverCl,
    IncompleteLit,
    IncompleteDist,
    IncompleteCl,
    /// HLIT field value 30 or 31 (287 / 288 codes), extra lengths are zero
    Hlit(u8),
    /// HDIST field value 30 or 31 (31 / 32 codes), extra lengths are zero
    Hdist(u8),
    /// code 16 as the very first code-length symbol (symbols 0..2 unused)
    Rep16First,
    /// the last zero-run is encoded with a repeat count overrunning HLIT+HDIST
    RepOverflow,
    /// litlen set is EOB only (one 1-bit code); emit the undefined pattern instead of EOB
    UndefLit,
}

#[derive(Clone, Copy, Debug, PartialEq, Eq)]
pub enum Kind {
    Stored,
    Fixed,
    Dynamic,
}

/// How the Huffman code lengths of a dynamic block are chosen.
#[derive(Clone, Copy, Debug, PartialEq, Eq)]
pub enum Shape {
    /// random leaf splitting
    Random,
    /// always split the deepest leaf: long (11..15 bit) codes are common
    Skewed,
    /// as balanced as possible
    Balanced,
}

#[derive(Clone, Debug)]
pub struct DynOpts {
    pub shape: Shape,
    /// add this many unused symbols (with codes) to the literal/length set
    pub extra_litlen: usize,
    pub extra_dist: usize,
    /// pad HLIT / HDIST / HCLEN with trailing zero-length entries
    pub pad_hlit: usize,
    pub pad_hdist: usize,
    pub pad_hclen: usize,
    /// probability (out of 8) to use a repeat code where possible
    pub rle_bias: u32,
    /// when the block has no match: 0 = hdist 1 with a zero length (no codes),
    /// 1 = a single unused 1-bit code, 2 = a complete code of unused symbols
    pub empty_dist_mode: u8,
    /// when exactly one distance symbol is used: encode it as a single 1-bit code (incomplete)
    pub single_dist_incomplete: bool,
    /// maximum code length for the literal/length and distance codes (<= 15)
    pub max_depth: u8,
    pub fault: DynFault,
}

impl DynOpts {
    pub fn random(rng: &mut Rng) -> DynOpts {
        DynOpts {
            shape: match rng.below(4) {
                0 => Shape::Skewed,
                1 => Shape::Balanced,
                _ => Shape::Random,
            },
            extra_litlen: if rng.chance(1, 3) { rng.size_biased(60) } else { 0 },
            extra_dist: if rng.chance(1, 3) { rng.below(30) } else { 0 },
            pad_hlit: if rng.chance(1, 4) { rng.below(30) } else { 0 },
            pad_hdist: if rng.chance(1, 4) { rng.below(29) } else { 0 },
            pad_hclen: if rng.chance(1, 4) { rng.below(15) } else { 0 },
            rle_bias: rng.below(9) as u32,
            empty_dist_mode: rng.below(3) as u8,
            single_dist_incomplete: rng.bool(),
            max_depth: if rng.chance(1, 3) { rng.range(9, 15) as u8 } else { 15 },
            fault: DynFault::None,
        }
    }
    pub fn plain() -> DynOpts {
        DynOpts {
            shape: Shape::Random,
            extra_litlen: 0,
            extra_dist: 0,
            pad_hlit: 0,
            pad_hdist: 0,
            pad_hclen: 0,
            rle_bias: 6,
            empty_dist_mode: 0,
            single_dist_incomplete: true,
            max_depth: 15,
            fault: DynFault::None,
        }
    }
}

#[derive(Clone, Debug, Default)]
pub struct BlockInfo {
    pub kind: u8,
    pub bfinal: bool,
    pub start_bit: usize,
    pub end_bit: usize,
    pub out_start: usize,
    pub out_end: usize,
}

/// Incremental builder: tokens are appended to the current block and encoded on `end_block`.
pub struct Builder {
    pub w: BitWriter,
    pub plain: Vec<u8>,
    pub blocks: Vec<BlockInfo>,
    pub zlib: bool,
    ld: LenDist,
    cur: Vec<Tok>,
    cur_start_out: usize,
    finished: bool,
}

/// RFC 1951 §3.2.2 canonical code assignment.
pub fn canonical_codes(lens: &[u8]) -> Vec<u32> {
    let mut bl_count = [0u32; 16];
    for &l in lens {
        bl_count[l as usize] += 1;
    }
    bl_count[0] = 0;
    let mut next = [0u32; 17];
    let mut code = 0u32;
    for bits in 1..=15 {
        code = (code + bl_count[bits - 1]) << 1;
        next[bits] = code;
    }
    let mut out = vec![0u32; lens.len()];
    for (i, &l) in lens.iter().enumerate() {
        if l != 0 {
            out[i] = next[l as usize];
            next[l as usize] += 1;
        }
    }
    out
}

/// Assign code lengths forming a *complete* prefix code over `n` symbols (n >= 2), depth <= max.
pub fn complete_lengths(rng: &mut Rng, n: usize, max: u8, shape: Shape) -> Vec<u8> {
    assert!(n >= 2 && n <= (1usize << max));
    let mut leaves: Vec<u8> = vec![1, 1];
    while leaves.len() < n {
        // number of further splits needed; make sure capacity remains: a leaf at depth d can
        // yield at most 2^(max-d) leaves.
        let need = n - leaves.len();
        let cand: Vec<usize> = (0..leaves.len()).filter(|&i| leaves[i] < max).collect();
        let idx = match shape {
            Shape::Random => *rng.pick(&cand),
            Shape::Skewed => {
                // deepest splittable leaf, unless capacity would run out
                let cap: usize = leaves.iter().map(|&d| 1usize << (max - d)).sum::<usize>();
                let _ = cap;
                let mut best = cand[0];
                for &i in &cand {
                    if leaves[i] > leaves[best] {
                        best = i;
                    }
                }
                // capacity check: after repeatedly splitting the deepest leaf we may get stuck
                // with all leaves at max depth while still needing symbols; fall back to the
                // shallowest when the deep chain is exhausted.
                if leaves[best] >= max - 1 && need > 1 {
                    let mut sh = cand[0];
                    for &i in &cand {
                        if leaves[i] < leaves[sh] {
                            sh = i;
                        }
                    }
                    if rng.chance(1, 2) {
                        sh
                    } else {
                        best
                    }
                } else {
                    best
                }
            }
            Shape::Balanced => {
                let mut sh = cand[0];
                for &i in &cand {
                    if leaves[i] < leaves[sh] {
                        sh = i;
                    }
                }
                sh
            }
        };
        let d = leaves[idx] + 1;
        leaves[idx] = d;
        leaves.push(d);
    }
    rng.shuffle(&mut leaves);
    leaves
}

impl Builder {
    pub fn new(zlib: bool) -> Builder {
        Builder::with_header(if zlib { Some((0x78, 0x9c)) } else { None })
    }

    /// `header`: explicit CMF/FLG bytes (caller guarantees validity when a valid stream is wanted).
    pub fn with_header(header: Option<(u8, u8)>) -> Builder {
        let mut w = BitWriter::new();
        if let Some((a, b)) = header {
            w.bytes(&[a, b]);
        }
        Builder {
            w,
            plain: Vec::new(),
            blocks: Vec::new(),
            zlib: header.is_some(),
            ld: lendist(),
            cur: Vec::new(),
            cur_start_out: 0,
            finished: false,
        }
    }

    pub fn out_len(&self) -> usize {
        self.plain.len()
    }

    pub fn lit(&mut self, b: u8) {
        self.cur.push(Tok::Lit(b));
        self.plain.push(b);
    }

    /// Append a match; caller guarantees 3<=len<=258, 1<=dist<=min(32768, produced).
    pub fn mat(&mut self, len: usize, dist: usize) {
        assert!((3..=258).contains(&len) && dist >= 1 && dist <= 32768 && dist <= self.plain.len());
        self.cur.push(Tok::Match { len: len as u16, dist: dist as u16 });
        for _ in 0..len {
            let b = self.plain[self.plain.len() - dist];
            self.plain.push(b);
        }
    }

    /// FAULT helper: a match whose distance may exceed the bytes produced (plaintext
    /// placeholder bytes are zeros; the reference decoder defines the real semantics).
    pub fn mat_unchecked(&mut self, len: usize, dist: usize) {
        self.cur.push(Tok::Match { len: len as u16, dist: dist as u16 });
        for _ in 0..len {
            let n = self.plain.len();
            let b = if dist <= n { self.plain[n - dist] } else { 0 };
            self.plain.push(b);
        }
    }

    pub fn fault_tok(&mut self, t: Tok) {
        self.cur.push(t);
    }

    pub fn lits(&mut self, bs: &[u8]) {
        for &b in bs {
            self.lit(b);
        }
    }

    fn len_sym(&self, len: usize) -> (usize, u32, u32) {
        // highest code whose base <= len, except 258 -> code 285
        if len == 258 {
            return (285, 0, 0);
        }
        let mut i = 27;
        while self.ld.len_base[i] as usize > len {
            i -= 1;
        }
        (257 + i, (len - self.ld.len_base[i] as usize) as u32, self.ld.len_extra[i] as u32)
    }

    fn dist_sym(&self, dist: usize) -> (usize, u32, u32) {
        let mut i = 29;
        while self.ld.dist_base[i] as usize > dist {
            i -= 1;
        }
        (i, (dist - self.ld.dist_base[i] as usize) as u32, self.ld.dist_extra[i] as u32)
    }

    fn begin(&mut self, bfinal: bool, btype: u32) -> BlockInfo {
        let info = BlockInfo {
            kind: btype as u8,
            bfinal,
            start_bit: self.w.bit_len(),
            out_start: self.cur_start_out,
            ..Default::default()
        };
        self.w.bit(bfinal as u32);
        self.w.bits(btype, 2);
        info
    }

    fn finish_block(&mut self, mut info: BlockInfo) {
        info.end_bit = self.w.bit_len();
        info.out_end = self.plain.len();
        self.cur_start_out = self.plain.len();
        self.cur.clear();
        if info.bfinal {
            self.finished = true;
        }
        self.blocks.push(info);
    }

    /// Emit a stored block holding `data` (<= 65535 bytes). `pad_fill` = value of the ignored
    /// padding bits before LEN.
    pub fn stored(&mut self, data: &[u8], bfinal: bool, pad_fill: u32) {
        assert!(self.cur.is_empty() && data.len() <= 65535);
        let info = self.begin(bfinal, 0);
        self.w.align_with(pad_fill);
        let len = data.len() as u32;
        self.w.bits(len, 16);
        self.w.bits(!len & 0xffff, 16);
        self.w.bytes(data);
        self.plain.extend_from_slice(data);
        self.finish_block(info);
    }

    fn emit_tokens(&mut self, lit_lens: &[u8], lit_codes: &[u32], d_lens: &[u8], d_codes: &[u32], undef_eob: bool) {
        let toks = std::mem::take(&mut self.cur);
        for t in &toks {
            match *t {
                Tok::Lit(b) => self.w.code(lit_codes[b as usize], lit_lens[b as usize] as u32),
                Tok::Match { len, dist } => {
                    let (ls, lx, ln) = self.len_sym(len as usize);
                    debug_assert!(lit_lens[ls] > 0);
                    self.w.code(lit_codes[ls], lit_lens[ls] as u32);
                    self.w.bits(lx, ln);
                    let (ds, dx, dn) = self.dist_sym(dist as usize);
                    debug_assert!(d_lens[ds] > 0);
                    self.w.code(d_codes[ds], d_lens[ds] as u32);
                    self.w.bits(dx, dn);
                }
                Tok::BadLitLen(sym) => {
                    self.w.code(lit_codes[sym as usize], lit_lens[sym as usize] as u32);
                    self.w.code(d_codes[0], d_lens[0] as u32);
                }
                Tok::BadDistSym { len, dsym } => {
                    let (ls, lx, ln) = self.len_sym(len as usize);
                    self.w.code(lit_codes[ls], lit_lens[ls] as u32);
                    self.w.bits(lx, ln);
                    self.w.code(d_codes[dsym as usize], d_lens[dsym as usize] as u32);
                }
                Tok::UndefDist { len } => {
                    let (ls, lx, ln) = self.len_sym(len as usize);
                    self.w.code(lit_codes[ls], lit_lens[ls] as u32);
                    self.w.bits(lx, ln);
                    self.w.bit(1);
                }
            }
        }
        if undef_eob {
            self.w.bit(1);
        } else {
            self.w.code(lit_codes[256], lit_lens[256] as u32);
        }
        self.cur = toks;
    }

    /// Encode the pending tokens as a fixed-Huffman block.
    pub fn end_fixed(&mut self, bfinal: bool) {
        let info = self.begin(bfinal, 1);
        let mut l = [0u8; 288];
        for (i, x) in l.iter_mut().enumerate() {
            *x = if i < 144 {
                8
            } else if i < 256 {
                9
            } else if i < 280 {
                7
            } else {
                8
            };
        }
        let d = [5u8; 32];
        let lc = canonical_codes(&l);
        let dc = canonical_codes(&d);
        self.emit_tokens(&l, &lc, &d, &dc, false);
        self.finish_block(info);
    }

    /// Encode the pending tokens as a dynamic-Huffman block with randomly shaped codes.
    /// Returns false (nothing sensible emitted) when a requested fault cannot be realised for
    /// this token set; the caller then retries with other tokens.
    pub fn end_dynamic(&mut self, bfinal: bool, rng: &mut Rng, o: &DynOpts) -> bool {
        let info = self.begin(bfinal, 2);
        let fault = o.fault;
        // used symbols
        let mut lit_used = [false; 286];
        let mut d_used = [false; 30];
        lit_used[256] = true;
        for t in &self.cur {
            match *t {
                Tok::Lit(b) => lit_used[b as usize] = true,
                Tok::Match { len, dist } => {
                    lit_used[self.len_sym(len as usize).0] = true;
                    d_used[self.dist_sym((dist as usize).clamp(1, 32768)).0] = true;
                }
                Tok::UndefDist { len } => {
                    lit_used[self.len_sym(len as usize).0] = true;
                }
                _ => {}
            }
        }
        let mut feasible = true;
        let mut n_extra = o.extra_litlen;
        let mut unused: Vec<usize> = (0..286).filter(|&i| !lit_used[i]).collect();
        if fault == DynFault::Rep16First {
            if lit_used[0] || lit_used[1] || lit_used[2] {
                feasible = false;
            }
            unused.retain(|&i| i > 2);
        }
        if matches!(fault, DynFault::OverLit | DynFault::IncompleteLit) {
            if lit_used[285] {
                feasible = false;
            }
            unused.retain(|&i| i != 285);
        }
        rng.shuffle(&mut unused);
        let mut lit_syms: Vec<usize> = (0..286).filter(|&i| lit_used[i]).collect();
        while n_extra > 0 && !unused.is_empty() {
            lit_syms.push(unused.pop().unwrap());
            n_extra -= 1;
        }
        if fault == DynFault::IncompleteLit {
            lit_syms.push(285);
            if lit_syms.len() < 3 {
                lit_syms.push(unused.pop().unwrap());
            }
        }
        if fault == DynFault::OverLit && lit_syms.len() < 2 {
            lit_syms.push(unused.pop().unwrap());
        }
        if fault == DynFault::UndefLit && lit_syms.len() != 1 {
            feasible = false;
        }
        let mut lit_lens = vec![0u8; 288];
        if lit_syms.len() == 1 {
            // only EOB: a single one-bit code (incomplete set, permitted degenerate form)
            lit_lens[lit_syms[0]] = 1;
        } else {
            let mut md = o.max_depth.max(2);
            while (1usize << md) < lit_syms.len() {
                md += 1;
            }
            let ls = complete_lengths(rng, lit_syms.len(), md, o.shape);
            for (s, l) in lit_syms.iter().zip(ls) {
                lit_lens[*s] = l;
            }
        }
        let max_of = |v: &[u8]| v.iter().copied().max().unwrap_or(0);
        match fault {
            DynFault::OverLit => {
                lit_lens[285] = max_of(&lit_lens);
            }
            DynFault::IncompleteLit => {
                // give 285 the maximum length (swap with a holder of it), then drop it
                let m = max_of(&lit_lens);
                if lit_lens[285] != m {
                    let j = (0..285).find(|&i| lit_lens[i] == m).unwrap();
                    lit_lens.swap(j, 285);
                }
                lit_lens[285] = 0;
                if m < 2 {
                    feasible = false;
                }
            }
            _ => {}
        }
        let mut flat_keep_l: Option<Vec<u8>> = None;
        if let DynFault::OverLitFlat(l) = fault {
            let used: Vec<usize> = (0..286).filter(|&i| lit_used[i]).collect();
            let cap = 1usize << l;
            let maxu = *used.last().unwrap();
            let mut pool: Vec<usize> = (maxu + 1..286).collect();
            rng.shuffle(&mut pool);
            let want = cap - used.len().min(cap) + 1 + rng.below(4);
            if used.len() > cap || pool.len() < want {
                feasible = false;
            } else {
                let mut set = used.clone();
                set.extend_from_slice(&pool[..want]);
                set.sort();
                lit_lens = vec![0u8; 288];
                let mut keep = vec![0u8; 288];
                for (i, &sy) in set.iter().enumerate() {
                    lit_lens[sy] = l;
                    if i < cap {
                        keep[sy] = l;
                    }
                }
                flat_keep_l = Some(keep);
            }
        }
        let n_d_used = d_used.iter().filter(|&&x| x).count();
        let mut d_syms: Vec<usize> = (0..30).filter(|&i| d_used[i]).collect();
        let mut d_unused: Vec<usize> = (0..30).filter(|&i| !d_used[i]).collect();
        if matches!(fault, DynFault::OverDist | DynFault::IncompleteDist) {
            if d_used[29] {
                feasible = false;
            }
            d_unused.retain(|&i| i != 29);
        }
        rng.shuffle(&mut d_unused);
        let mut d_lens = vec![0u8; 32];
        let mut extra_d = o.extra_dist;
        let has_undef_dist = self.cur.iter().any(|t| matches!(t, Tok::UndefDist { .. }));
        if has_undef_dist {
            // exactly one distance symbol with a 1-bit code; the fault token emits pattern `1`
            if n_d_used > 1 {
                feasible = false;
            }
            let sym = if n_d_used == 1 { d_syms[0] } else { d_unused[0] };
            d_lens[sym] = 1;
        } else {
            if n_d_used == 0 {
                match o.empty_dist_mode {
                    0 => {}
                    1 => {
                        d_lens[d_unused[0]] = 1;
                    }
                    _ => {
                        extra_d = extra_d.max(2);
                    }
                }
                if o.empty_dist_mode < 2 {
                    extra_d = 0;
                }
            }
            if matches!(fault, DynFault::OverDist | DynFault::IncompleteDist) {
                // need a genuinely complete multi-symbol distance code to start from
                if fault == DynFault::IncompleteDist {
                    d_syms.push(29);
                }
                while d_syms.len() < 3 {
                    d_syms.push(d_unused.pop().unwrap());
                }
                d_lens = vec![0u8; 32];
                let ls = complete_lengths(rng, d_syms.len(), o.max_depth.max(5), o.shape);
                for (s, l) in d_syms.iter().zip(ls) {
                    d_lens[*s] = l;
                }
                let m = max_of(&d_lens);
                if fault == DynFault::OverDist {
                    d_lens[29] = m;
                } else {
                    if d_lens[29] != m {
                        let j = (0..29).find(|&i| d_lens[i] == m).unwrap();
                        d_lens.swap(j, 29);
                    }
                    d_lens[29] = 0;
                }
            } else if n_d_used == 1 && o.single_dist_incomplete && extra_d == 0 {
                d_lens[d_syms[0]] = 1;
            } else if n_d_used >= 1 || extra_d >= 2 {
                while extra_d > 0 && !d_unused.is_empty() {
                    d_syms.push(d_unused.pop().unwrap());
                    extra_d -= 1;
                }
                if d_syms.len() == 1 {
                    d_syms.push(d_unused.pop().unwrap());
                }
                let mut md = o.max_depth.max(2);
                while (1usize << md) < d_syms.len() {
                    md += 1;
                }
                let ls = complete_lengths(rng, d_syms.len(), md, o.shape);
                for (s, l) in d_syms.iter().zip(ls) {
                    d_lens[*s] = l;
                }
            }
        }
        let mut flat_keep_d: Option<Vec<u8>> = None;
        if let DynFault::OverDistFlat(l) = fault {
            let used: Vec<usize> = (0..30).filter(|&i| d_used[i]).collect();
            let cap = 1usize << l;
            let lo = used.last().map_or(0, |&m| m + 1);
            let mut pool: Vec<usize> = (lo..30).collect();
            rng.shuffle(&mut pool);
            let want = cap - used.len().min(cap) + 1 + rng.below(4);
            if used.len() > cap || pool.len() < want || has_undef_dist {
                feasible = false;
            } else {
                let mut set = used.clone();
                set.extend_from_slice(&pool[..want]);
                set.sort();
                d_lens = vec![0u8; 32];
                let mut keep = vec![0u8; 32];
                for (i, &sy) in set.iter().enumerate() {
                    d_lens[sy] = l;
                    if i < cap {
                        keep[sy] = l;
                    }
                }
                flat_keep_d = Some(keep);
            }
        }
        // HLIT / HDIST
        let last_lit = (0..286).rev().find(|&i| lit_lens[i] != 0).unwrap();
        let hlit = (last_lit + 1).max(257);
        let mut hlit = (hlit + o.pad_hlit).min(286);
        let last_d = (0..30).rev().find(|&i| d_lens[i] != 0);
        let hdist = last_d.map_or(1, |i| i + 1);
        let mut hdist = (hdist + o.pad_hdist).min(30);
        match fault {
            DynFault::Hlit(f) => hlit = 257 + f as usize,
            DynFault::Hdist(f) => hdist = 1 + f as usize,
            DynFault::RepOverflow => {
                // make sure the sequence ends in a zero run of 3..=9 entries
                let tail = hdist - last_d.map_or(0, |i| i + 1);
                if tail < 3 {
                    hdist = (last_d.map_or(0, |i| i + 1) + 3 + rng.below(5)).min(30);
                }
                if hdist - last_d.map_or(0, |i| i + 1) < 3 {
                    feasible = false;
                }
            }
            _ => {}
        }
        let mut seq: Vec<u8> = lit_lens[..hlit].to_vec();
        seq.extend_from_slice(&d_lens[..hdist]);
        // run-length encode with randomised choices
        let mut cl_syms: Vec<(u8, u32, u32)> = Vec::new(); // (symbol, extra value, extra bits)
        let no18 = matches!(fault, DynFault::OverCl | DynFault::IncompleteCl);
        let mut i = 0;
        if fault == DynFault::Rep16First {
            cl_syms.push((16, 0, 2));
            i = 3;
        }
        let tail_start = if fault == DynFault::RepOverflow {
            let mut t = seq.len();
            while t > 0 && seq[t - 1] == 0 {
                t -= 1;
            }
            // keep the final run at most 9 long so that code 17 can express run+1
            t.max(seq.len().saturating_sub(9))
        } else {
            usize::MAX
        };
        while i < seq.len() {
            if i == tail_start {
                let run = seq.len() - i;
                if run < 2 {
                    feasible = false;
                }
                let over = (run + 1 + rng.below(3)).clamp(3, 10);
                cl_syms.push((17, (over - 3) as u32, 3));
                break;
            }
            let v = seq[i];
            let mut run = 1;
            while i + run < seq.len() && seq[i + run] == v && i + run != tail_start {
                run += 1;
            }
            let use_rle = rng.below(8) < o.rle_bias as usize;
            if v == 0 && run >= 3 && use_rle {
                if run >= 11 && rng.chance(3, 4) && !no18 {
                    let r = if rng.chance(1, 2) { run.min(138) } else { rng.range(11, run.min(138)) };
                    cl_syms.push((18, (r - 11) as u32, 7));
                    i += r;
                } else {
                    let r = if rng.chance(1, 2) { run.min(10) } else { rng.range(3, run.min(10)) };
                    cl_syms.push((17, (r - 3) as u32, 3));
                    i += r;
                }
            } else if i > 0 && seq[i - 1] == v && run >= 3 && use_rle {
                let r = if rng.chance(1, 2) { run.min(6) } else { rng.range(3, run.min(6)) };
                cl_syms.push((16, (r - 3) as u32, 2));
                i += r;
            } else {
                cl_syms.push((v, 0, 0));
                i += 1;
            }
        }
        // code-length code: complete, <= 7 bits
        let mut cl_used = [false; 19];
        for &(s, _, _) in &cl_syms {
            cl_used[s as usize] = true;
        }
        let mut cls: Vec<usize> = (0..19).filter(|&i| cl_used[i]).collect();
        let mut cl_unused: Vec<usize> = (0..19).filter(|&i| !cl_used[i]).collect();
        if no18 {
            cl_unused.retain(|&i| i != 18);
        }
        rng.shuffle(&mut cl_unused);
        let extra_cl = if rng.chance(1, 3) { rng.below(4) } else { 0 };
        for _ in 0..extra_cl {
            if let Some(x) = cl_unused.pop() {
                cls.push(x);
            }
        }
        if fault == DynFault::IncompleteCl {
            cls.push(18);
        }
        while cls.len() < 2 || (fault == DynFault::IncompleteCl && cls.len() < 3) {
            cls.push(cl_unused.pop().unwrap());
        }
        let cl_shape = if o.shape == Shape::Skewed { Shape::Skewed } else { Shape::Random };
        let cll = complete_lengths(rng, cls.len(), 7, cl_shape);
        let mut cl_lens = [0u8; 19];
        for (s, l) in cls.iter().zip(cll) {
            cl_lens[*s] = l;
        }
        match fault {
            DynFault::OverCl => {
                cl_lens[18] = max_of(&cl_lens);
            }
            DynFault::IncompleteCl => {
                let m = max_of(&cl_lens);
                if cl_lens[18] != m {
                    let j = (0..18).find(|&i| cl_lens[i] == m).unwrap();
                    cl_lens.swap(j, 18);
                }
                cl_lens[18] = 0;
            }
            _ => {}
        }
        let order = cl_order();
        let last = (0..19).rev().find(|&i| cl_lens[order[i] as usize] != 0).unwrap();
        let hclen = (last + 1).max(4);
        let hclen = (hclen + o.pad_hclen).min(19);
        self.w.bits((hlit - 257) as u32, 5);
        self.w.bits((hdist - 1) as u32, 5);
        self.w.bits((hclen - 4) as u32, 4);
        for k in 0..hclen {
            self.w.bits(cl_lens[order[k] as usize] as u32, 3);
        }
        let cl_codes = canonical_codes(&cl_lens);
        for &(s, xv, xb) in &cl_syms {
            self.w.code(cl_codes[s as usize], cl_lens[s as usize] as u32);
            self.w.bits(xv, xb);
        }
        // codes of the *used* symbols: computed from the fault-free lengths when the fault
        // appended / dropped the canonically last symbol (their codes are unchanged by it)
        let mut ll = lit_lens.clone();
        let mut dl = d_lens.clone();
        if fault == DynFault::OverLit {
            ll[285] = 0;
        }
        if fault == DynFault::OverDist {
            dl[29] = 0;
        }
        if let Some(k) = flat_keep_l {
            ll = k;
        }
        if let Some(k) = flat_keep_d {
            dl = k;
        }
        let lc = canonical_codes(&ll[..286]);
        let dc = canonical_codes(&dl[..30]);
        self.emit_tokens(&ll, &lc, &dl, &dc, fault == DynFault::UndefLit);
        self.finish_block(info);
        feasible
    }

    /// Finish: pad the final byte with `fill` bits, append the zlib trailer if needed.
    pub fn finish(mut self, fill: u32) -> GenStream {
        assert!(self.finished, "no final block");
        let end_bit = self.w.bit_len();
        self.w.align_with(fill);
        if self.zlib {
            let a = adler32(1, &self.plain);
            self.w.bytes(&a.to_be_bytes());
        }
        GenStream {
            bytes: self.w.out,
            plain: self.plain,
            zlib: self.zlib,
            blocks: self.blocks,
            end_bit,
        }
    }
}

#[derive(Clone, Debug)]
pub struct GenStream {
    pub bytes: Vec<u8>,
    pub plain: Vec<u8>,
    pub zlib: bool,
    pub blocks: Vec<BlockInfo>,
    /// bit position just after the final block
    pub end_bit: usize,
}

#[derive(Clone, Debug)]
pub struct GenOpts {
    pub zlib: bool,
    pub max_blocks: usize,
    pub max_tokens: usize,
    pub max_stored: usize,
    /// restrict block kinds (stored, fixed, dynamic)
    pub kinds: [bool; 3],
    pub force_shape: Option<Shape>,
    /// random valid CMF/FLG instead of 0x78 0x9c
    pub random_header: bool,
    /// maximum distance (e.g. to keep streams decodable in a small ring)
    pub max_dist: usize,
}

impl GenOpts {
    pub fn small(zlib: bool) -> GenOpts {
        GenOpts {
            zlib,
            max_blocks: 4,
            max_tokens: 60,
            max_stored: 40,
            kinds: [true, true, true],
            force_shape: None,
            random_header: false,
            max_dist: 32768,
        }
    }
    pub fn medium(zlib: bool) -> GenOpts {
        GenOpts { max_blocks: 8, max_tokens: 2000, max_stored: 3000, ..GenOpts::small(zlib) }
    }
    pub fn large(zlib: bool) -> GenOpts {
        GenOpts { max_blocks: 12, max_tokens: 30000, max_stored: 65535, ..GenOpts::small(zlib) }
    }
}

const LEN_BIAS: [usize; 12] = [3, 4, 5, 10, 11, 12, 18, 130, 226, 227, 257, 258];
const DIST_BIAS: [usize; 14] = [1, 2, 3, 4, 5, 6, 8, 9, 257, 258, 4096, 4097, 32767, 32768];

pub fn random_valid_header(rng: &mut Rng) -> (u8, u8) {
    let cinfo = rng.below(8) as u8;
    let cmf = 8 | (cinfo << 4);
    let flevel = rng.below(4) as u8;
    let mut flg = flevel << 6;
    let rem = (cmf as u32 * 256 + flg as u32) % 31;
    if rem != 0 {
        flg += (31 - rem) as u8;
    }
    (cmf, flg)
}

/// Append random tokens to the builder's current block.
pub fn random_tokens(b: &mut Builder, rng: &mut Rng, n: usize, max_dist: usize) {
    let lit_mode = rng.below(4);
    let alphabet: Vec<u8> = match lit_mode {
        0 => (0..=255u8).collect(),
        1 => {
            let n = 1 + rng.below(6);
            rng.bytes(n)
        }
        2 => b"etaoin shrdlu".to_vec(),
        _ => {
            let n = 1 + rng.below(40);
            rng.bytes(n)
        }
    };
    let match_p = rng.below(7) as u32; // out of 8
    for _ in 0..n {
        let have = b.out_len().min(max_dist);
        if have >= 1 && rng.chance(match_p, 8) {
            let len = if rng.chance(1, 3) { *rng.pick(&LEN_BIAS) } else { 3 + rng.size_biased(255) };
            let dist = if have >= 32768 && rng.chance(1, 6) {
                32768
            } else if rng.chance(1, 3) {
                *rng.pick(&DIST_BIAS)
            } else {
                1 + rng.size_biased(32767)
            };
            let dist = if dist > have {
                if rng.chance(1, 2) {
                    have
                } else {
                    1 + rng.below(have)
                }
            } else {
                dist
            };
            b.mat(len, dist);
        } else {
            let c = *rng.pick(&alphabet);
            b.lit(c);
        }
    }
}

/// Random valid stream.
pub fn random_stream(rng: &mut Rng, o: &GenOpts) -> GenStream {
    let header = if o.zlib {
        Some(if o.random_header { random_valid_header(rng) } else { (0x78, 0x9c) })
    } else {
        None
    };
    let mut b = Builder::with_header(header);
    let nblocks = 1 + rng.size_biased(o.max_blocks.saturating_sub(1));
    let kinds: Vec<Kind> = [Kind::Stored, Kind::Fixed, Kind::Dynamic]
        .iter()
        .enumerate()
        .filter(|(i, _)| o.kinds[*i])
        .map(|(_, k)| *k)
        .collect();
    for bi in 0..nblocks {
        let bfinal = bi + 1 == nblocks;
        let kind = if kinds.contains(&Kind::Dynamic) && rng.chance(1, 2) {
            Kind::Dynamic
        } else {
            *rng.pick(&kinds)
        };
        match kind {
            Kind::Stored => {
                let n = if rng.chance(1, 8) {
                    0
                } else if rng.chance(1, 4) {
                    1 + rng.below(4)
                } else {
                    rng.size_biased(o.max_stored)
                };
                let data = if rng.chance(1, 2) {
                    rng.bytes(n)
                } else {
                    crate::gen::data::text(rng, n)
                };
                let fill = if rng.chance(1, 8) { 1 } else { 0 };
                b.stored(&data, bfinal, fill);
            }
            Kind::Fixed => {
                let n = if rng.chance(1, 10) { 0 } else { rng.size_biased(o.max_tokens) };
                random_tokens(&mut b, rng, n, o.max_dist);
                b.end_fixed(bfinal);
            }
            Kind::Dynamic => {
                let n = if rng.chance(1, 12) { 0 } else { rng.size_biased(o.max_tokens) };
                random_tokens(&mut b, rng, n, o.max_dist);
                let mut d = DynOpts::random(rng);
                if let Some(s) = o.force_shape {
                    d.shape = s;
                }
                let _ = b.end_dynamic(bfinal, rng, &d);
            }
        }
    }
    let fill = if rng.chance(1, 8) { 1 } else { 0 };
    b.finish(fill)
}
