//! Fault injection: targeted RFC 1951/1950 violations (exactly one per stream, built so that a
//! decoder *lacking the corresponding check* would carry on to the end of the stream) and
//! generic mutators over valid streams.

use super::grammar::{self, Builder, DynFault, DynOpts, Tok};
use crate::refimpl::checksums::adler32;
use crate::rng::Rng;

#[derive(Clone, Copy, Debug, PartialEq, Eq, Hash)]
pub enum Kind {
    ReservedBlockType,
    StoredLenMismatch,
    OverLit,
    OverDist,
    OverCl,
    IncompleteLit,
    IncompleteDist,
    IncompleteCl,
    Hlit287,
    Hlit288,
    Hdist31,
    Hdist32,
    Rep16First,
    RepOverflow,
    LitLen286,
    LitLen287,
    Dist30,
    Dist31,
    UndefDist,
    UndefLit,
    DistanceBeforeStart,
    HeaderMethod,
    HeaderWindow,
    HeaderDict,
    HeaderCheck,
    WrongTrailer,
}

pub const ALL_KINDS: [Kind; 26] = [
    Kind::ReservedBlockType,
    Kind::StoredLenMismatch,
    Kind::OverLit,
    Kind::OverDist,
    Kind::OverCl,
    Kind::IncompleteLit,
    Kind::IncompleteDist,
    Kind::IncompleteCl,
    Kind::Hlit287,
    Kind::Hlit288,
    Kind::Hdist31,
    Kind::Hdist32,
    Kind::Rep16First,
    Kind::RepOverflow,
    Kind::LitLen286,
    Kind::LitLen287,
    Kind::Dist30,
    Kind::Dist31,
    Kind::UndefDist,
    Kind::UndefLit,
    Kind::DistanceBeforeStart,
    Kind::HeaderMethod,
    Kind::HeaderWindow,
    Kind::HeaderDict,
    Kind::HeaderCheck,
    Kind::WrongTrailer,
];

impl Kind {
    pub fn name(&self) -> String {
        format!("{:?}", self)
    }
    /// the reference decoder's classification this fault must produce (prefix match on Debug)
    pub fn expected_ref(&self) -> &'static str {
        match self {
            Kind::ReservedBlockType => "ReservedBlockType",
            Kind::StoredLenMismatch => "StoredLenMismatch",
            Kind::OverLit => "OverSubscribed(LitLen)",
            Kind::OverDist => "OverSubscribed(Dist)",
            Kind::OverCl => "OverSubscribed(CodeLen)",
            Kind::IncompleteLit => "Incomplete(LitLen)",
            Kind::IncompleteDist => "Incomplete(Dist)",
            Kind::IncompleteCl => "Incomplete(CodeLen)",
            Kind::Hlit287 | Kind::Hlit288 => "TooManyLitLen",
            Kind::Hdist31 | Kind::Hdist32 => "TooManyDist",
            Kind::Rep16First => "RepeatWithoutPrevious",
            Kind::RepOverflow => "RepeatOverflowsCount",
            Kind::LitLen286 | Kind::LitLen287 => "LitLen286_287",
            Kind::Dist30 | Kind::Dist31 => "Dist30_31",
            Kind::UndefDist => "UndefinedCode(Dist)",
            Kind::UndefLit => "UndefinedCode(LitLen)",
            Kind::DistanceBeforeStart => "DistanceBeforeStart",
            Kind::HeaderMethod => "BadHeaderMethod",
            Kind::HeaderWindow => "BadHeaderWindow",
            Kind::HeaderDict => "BadHeaderDict",
            Kind::HeaderCheck => "BadHeaderCheck",
            Kind::WrongTrailer => "AdlerMismatch",
        }
    }
    pub fn needs_zlib(&self) -> bool {
        matches!(self, Kind::HeaderMethod | Kind::HeaderWindow | Kind::HeaderDict | Kind::HeaderCheck | Kind::WrongTrailer)
    }
}

pub struct Faulty {
    pub bytes: Vec<u8>,
    pub zlib: bool,
    pub kind: Kind,
    /// byte offset at (or after) which the fault sits: 0 = very first bytes
    pub deep: bool,
    pub desc: String,
}

fn lead_in(b: &mut Builder, rng: &mut Rng, deep: bool) {
    if !deep {
        return;
    }
    // a few valid blocks first so that the fault is reached with real decoder state, the fast
    // inner loop active and plenty of history
    let nb = 1 + rng.below(3);
    for _ in 0..nb {
        match rng.below(3) {
            0 => {
                let n = rng.size_biased(300);
                let d = rng.bytes(n);
                b.stored(&d, false, 0);
            }
            1 => {
                let n = 20 + rng.size_biased(600);
                grammar::random_tokens(b, rng, n, 32768);
                b.end_fixed(false);
            }
            _ => {
                let n = 20 + rng.size_biased(600);
                grammar::random_tokens(b, rng, n, 32768);
                let o = DynOpts::random(rng);
                let _ = b.end_dynamic(false, rng, &o);
            }
        }
    }
}

/// Tokens that avoid symbols the fault needs free (literal bytes 0..2, length 258).
fn plain_tokens(b: &mut Builder, rng: &mut Rng, n: usize) {
    for _ in 0..n {
        let have = b.out_len();
        if have >= 1 && rng.chance(1, 4) {
            let len = 3 + rng.below(60);
            let dist = 1 + rng.below(have.min(3000));
            b.mat(len, dist);
        } else {
            b.lit(b'a' + rng.below(20) as u8);
        }
    }
}

fn tail(b: &mut Builder, rng: &mut Rng) {
    // what a lax decoder would sail through: >= 14 further input bytes in valid blocks
    {
                let n = 30 + rng.below(40);
                plain_tokens(b, rng, n);
            }
    b.end_fixed(false);
    let d = rng.bytes(20);
    b.stored(&d, true, 0);
}

/// Build one stream with exactly one injected fault. `None` if this attempt was infeasible.
pub fn build(rng: &mut Rng, kind: Kind, deep: bool) -> Option<Faulty> {
    let zl = kind.needs_zlib() || rng.bool();
    let header = if zl { Some(grammar::random_valid_header(rng)) } else { None };
    let mut b = Builder::with_header(header);
    let mut desc = String::new();
    match kind {
        Kind::HeaderMethod | Kind::HeaderWindow | Kind::HeaderDict | Kind::HeaderCheck => {
            // valid body, header broken in exactly one rule (others kept valid where possible)
            let (mut cmf, mut flg) = grammar::random_valid_header(rng);
            match kind {
                Kind::HeaderMethod => {
                    let cm = *rng.pick(&[0u8, 1, 7, 9, 15]);
                    cmf = (cmf & 0xf0) | cm;
                    flg = fix_check(cmf, flg & 0xc0);
                }
                Kind::HeaderWindow => {
                    cmf = 8 | ((8 + rng.below(8) as u8) << 4);
                    flg = fix_check(cmf, flg & 0xc0);
                }
                Kind::HeaderDict => {
                    flg = fix_check(cmf, (flg & 0xc0) | 0x20);
                }
                _ => {
                    // break only FCHECK
                    let good = flg & 0x1f;
                    let mut bad = rng.below(32) as u8;
                    if bad == good {
                        bad = (bad + 1) & 31;
                    }
                    flg = (flg & 0xe0) | bad;
                    if (cmf as u32 * 256 + flg as u32) % 31 == 0 {
                        flg ^= 1;
                    }
                }
            }
            let mut b2 = Builder::with_header(Some((cmf, flg)));
            plain_tokens(&mut b2, rng, 40);
            b2.end_fixed(true);
            let g = b2.finish(0);
            desc = format!("header {:02x}{:02x}", cmf, flg);
            return Some(Faulty { bytes: g.bytes, zlib: true, kind, deep: false, desc });
        }
        Kind::WrongTrailer => {
            lead_in(&mut b, rng, deep);
            plain_tokens(&mut b, rng, 50);
            b.end_fixed(true);
            let g = b.finish(0);
            let mut bytes = g.bytes;
            let n = bytes.len();
            let good = adler32(1, &g.plain);
            let bad = match rng.below(4) {
                0 => good ^ (1 << rng.below(32)),
                1 => 0,
                2 => good.swap_bytes(),
                _ => good.wrapping_add(1 + rng.below(1000) as u32),
            };
            let bad = if bad == good { good ^ 0x8000_0000 } else { bad };
            bytes[n - 4..].copy_from_slice(&bad.to_be_bytes());
            return Some(Faulty { bytes, zlib: true, kind, deep, desc: format!("trailer {:08x} vs {:08x}", bad, good) });
        }
        _ => {}
    }
    lead_in(&mut b, rng, deep);
    let mut feasible = true;
    match kind {
        Kind::ReservedBlockType => {
            // BFINAL, BTYPE = 3, then what would be a fine fixed block body
            b.w.bit(0);
            b.w.bits(3, 2);
            // (written directly; continue with a valid fixed block as decoy)
            plain_tokens(&mut b, rng, 30);
            b.end_fixed(false);
            tail(&mut b, rng);
        }
        Kind::StoredLenMismatch => {
            let n = 1 + rng.below(60);
            let d = rng.bytes(n);
            // emulate `stored` with a corrupted NLEN
            b.w.bit(0);
            b.w.bits(0, 2);
            b.w.align();
            let len = n as u32;
            let nlen = (!len & 0xffff) ^ (1 << rng.below(16));
            b.w.bits(len, 16);
            b.w.bits(nlen, 16);
            b.w.bytes(&d);
            tail(&mut b, rng);
        }
        Kind::OverLit | Kind::OverDist | Kind::OverCl | Kind::IncompleteLit | Kind::IncompleteDist | Kind::IncompleteCl
        | Kind::Hlit287 | Kind::Hlit288 | Kind::Hdist31 | Kind::Hdist32 | Kind::Rep16First | Kind::RepOverflow => {
            // a third of the over-subscribed sets are "flat": more than 2^l codes of length l and
            // nothing longer (l = 1, 2) - the degenerate shapes a merged complete/incomplete
            // check is most likely to let through
            let flat_l = 1 + rng.below(2) as u8;
            let flat_d = kind == Kind::OverDist && rng.chance(1, 3);
            let flat_lit = kind == Kind::OverLit && rng.chance(1, 3);
            if flat_lit {
                // at most 2^l - 1 distinct literals, no matches
                let nd = 1 + rng.below((1usize << flat_l) - 1);
                let alpha: Vec<u8> = (0..nd).map(|_| 3 + rng.below(250) as u8).collect();
                for _ in 0..5 + rng.below(40) {
                    b.lit(*rng.pick(&alpha));
                }
            } else if flat_d {
                // literals plus matches that use at most 2^l distinct distance symbols
                for i in 0..10 + rng.below(30) {
                    b.lit(b'a' + (i % 7) as u8);
                }
                let ds: Vec<usize> = (0..(1usize << flat_l)).map(|_| 1 + rng.below(4)).collect();
                for _ in 0..1 + rng.below(6) {
                    b.mat(3 + rng.below(30), *rng.pick(&ds));
                    b.lit(b'z');
                }
            } else {
                let n = 10 + rng.below(80);
                plain_tokens(&mut b, rng, n);
            }
            let mut o = DynOpts::random(rng);
            if flat_lit {
                o.fault = DynFault::OverLitFlat(flat_l);
            }
            o.fault = match kind {
                Kind::OverLit if flat_lit => DynFault::OverLitFlat(flat_l),
                Kind::OverLit => DynFault::OverLit,
                Kind::OverDist if flat_d => DynFault::OverDistFlat(flat_l),
                Kind::OverDist => DynFault::OverDist,
                Kind::OverCl => DynFault::OverCl,
                Kind::IncompleteLit => DynFault::IncompleteLit,
                Kind::IncompleteDist => DynFault::IncompleteDist,
                Kind::IncompleteCl => DynFault::IncompleteCl,
                Kind::Hlit287 => DynFault::Hlit(30),
                Kind::Hlit288 => DynFault::Hlit(31),
                Kind::Hdist31 => DynFault::Hdist(30),
                Kind::Hdist32 => DynFault::Hdist(31),
                Kind::Rep16First => DynFault::Rep16First,
                _ => DynFault::RepOverflow,
            };
            if kind == Kind::Rep16First {
                o.rle_bias = 8;
            }
            feasible = b.end_dynamic(false, rng, &o);
            tail(&mut b, rng);
        }
        Kind::LitLen286 | Kind::LitLen287 => {
            {
                let n = 5 + rng.below(40);
                plain_tokens(&mut b, rng, n);
            }
            b.fault_tok(Tok::BadLitLen(if kind == Kind::LitLen286 { 286 } else { 287 }));
            plain_tokens(&mut b, rng, 20);
            b.end_fixed(false);
            tail(&mut b, rng);
        }
        Kind::Dist30 | Kind::Dist31 => {
            {
                let n = 5 + rng.below(40);
                plain_tokens(&mut b, rng, n);
            }
            b.fault_tok(Tok::BadDistSym { len: 3 + rng.below(200) as u16, dsym: if kind == Kind::Dist30 { 30 } else { 31 } });
            plain_tokens(&mut b, rng, 20);
            b.end_fixed(false);
            tail(&mut b, rng);
        }
        Kind::UndefDist => {
            // all matches of the block use one distance symbol; one of them is corrupted
            let n = 5 + rng.below(30);
            for _ in 0..n {
                b.lit(b'a' + rng.below(20) as u8);
            }
            let d = 1 + rng.below(4); // distance symbols 0..3 have no extra bits
            if rng.bool() {
                b.mat(3 + rng.below(20), d);
            }
            b.fault_tok(Tok::UndefDist { len: 3 + rng.below(100) as u16 });
            for _ in 0..20 {
                b.lit(b'a' + rng.below(20) as u8);
            }
            let mut o = DynOpts::random(rng);
            o.extra_dist = 0;
            o.pad_hdist = 0;
            feasible = b.end_dynamic(false, rng, &o);
            tail(&mut b, rng);
        }
        Kind::UndefLit => {
            let mut o = DynOpts::random(rng);
            o.extra_litlen = 0;
            o.fault = DynFault::UndefLit;
            feasible = b.end_dynamic(false, rng, &o);
            tail(&mut b, rng);
        }
        Kind::DistanceBeforeStart => {
            // sometimes with most of a window already produced, so that the bad distance is a
            // large one and is met far into the output (past any small-position special case)
            if deep && rng.chance(1, 3) {
                let want = 16_000 + rng.below(16_700);
                if rng.bool() {
                    let d = rng.bytes(want.saturating_sub(b.out_len()).max(1));
                    b.stored(&d, false, 0);
                } else {
                    b.lit(b'x');
                    while b.out_len() + 258 < want {
                        b.mat(258, 1);
                    }
                    b.end_fixed(false);
                }
            }
            {
                let n = rng.below(40);
                plain_tokens(&mut b, rng, n);
            }
            let have = b.out_len();
            let over = 1 + rng.size_biased(200);
            let dist = (have + over).min(32768);
            if dist <= have {
                feasible = false;
            }
            b.mat_unchecked(3 + rng.below(100), dist);
            plain_tokens(&mut b, rng, 20);
            if rng.bool() {
                b.end_fixed(false);
            } else {
                let o = DynOpts::random(rng);
                let _ = b.end_dynamic(false, rng, &o);
            }
            tail(&mut b, rng);
            desc = format!("dist {} with {} bytes produced", dist, have);
        }
        _ => unreachable!(),
    }
    if !feasible {
        return None;
    }
    let g = b.finish(0);
    Some(Faulty { bytes: g.bytes, zlib: zl, kind, deep, desc })
}

fn fix_check(cmf: u8, flg_hi: u8) -> u8 {
    let mut flg = flg_hi & 0xe0;
    let rem = (cmf as u32 * 256 + flg as u32) % 31;
    if rem != 0 {
        flg += (31 - rem) as u8;
    }
    flg
}

/// Generic mutators over a valid stream.
pub fn mutate(rng: &mut Rng, valid: &[u8], other: &[u8]) -> (Vec<u8>, &'static str) {
    let mut v = valid.to_vec();
    if v.is_empty() {
        return (rng.bytes(8), "random");
    }
    match rng.below(8) {
        0 => {
            let i = rng.below(v.len());
            v[i] ^= 1 << rng.below(8);
            (v, "bitflip")
        }
        1 => {
            let i = rng.below(v.len());
            v[i] = rng.byte();
            (v, "byteset")
        }
        2 => {
            let n = rng.below(v.len());
            v.truncate(n);
            (v, "truncate")
        }
        3 => {
            let i = rng.below(v.len() + 1);
            let k = 1 + rng.below(4);
            for _ in 0..k {
                v.insert(i, rng.byte());
            }
            (v, "insert")
        }
        4 => {
            let i = rng.below(v.len());
            let k = (1 + rng.below(4)).min(v.len() - i);
            v.drain(i..i + k);
            (v, "delete")
        }
        5 => {
            let i = rng.below(v.len());
            let j = if other.is_empty() { 0 } else { rng.below(other.len()) };
            v.truncate(i);
            v.extend_from_slice(&other[j..]);
            (v, "splice")
        }
        6 => {
            for _ in 0..1 + rng.below(4) {
                let i = rng.below(v.len());
                v[i] ^= 1 << rng.below(8);
            }
            (v, "multiflip")
        }
        _ => {
            let n = 1 + rng.size_biased(200);
            (rng.bytes(n), "random")
        }
    }
}
