//! Plaintext classes for compressor-side workloads.

use crate::rng::Rng;

pub const CLASS_NAMES: [&str; 19] = [
    "zeros",
    "single_run",
    "period_p",
    "alphabet2",
    "alphabet4",
    "alphabet16",
    "random",
    "random_sparse_near",
    "random_sparse_far",
    "x_x",
    "x_junk_x",
    "text",
    "incompressible_then_compressible",
    "runs_mixed",
    "alphabet200",
    "mixed_segments",
    "lazy_chains",
    "window_edge_repeats",
    "rare_strings_at_64k_periods",
];

pub const NUM_CLASSES: usize = CLASS_NAMES.len();

const WORDS: [&str; 24] = [
    "the", "quick", "brown", "fox", "jumps", "over", "lazy", "dog", "deflate", "window",
    "huffman", "stream", "buffer", "0123456789", "lorem", "ipsum", "dolor", "sit", "amet",
    "\n", ", ", ". ", "compress", "ion",
];

pub const PERIODS: [usize; 11] = [1, 2, 3, 4, 5, 257, 258, 259, 32767, 32768, 32769];

/// Sizes that straddle the thresholds named in the properties.
pub fn boundary_sizes() -> Vec<usize> {
    let mut v = Vec::new();
    for &b in &[258usize, 4096, 31744, 32768, 65535, 65536, 85196] {
        for d in -2i64..=2 {
            v.push((b as i64 + d) as usize);
        }
    }
    v
}

pub fn text(rng: &mut Rng, n: usize) -> Vec<u8> {
    let mut v = Vec::with_capacity(n + 16);
    while v.len() < n {
        v.extend_from_slice(rng.pick(&WORDS).as_bytes());
        if rng.chance(3, 4) {
            v.push(b' ');
        }
    }
    v.truncate(n);
    v
}

/// Random bytes with sparse 3..=`mlen`-byte repeats at distance in [dmin, dmax].
pub fn sparse(rng: &mut Rng, n: usize, dmin: usize, dmax: usize, every: usize, mlen: usize) -> Vec<u8> {
    let mut v = rng.bytes(n);
    let mut i = dmin.max(8);
    while i + mlen + 1 < n {
        let d = rng.range(dmin, dmax.min(i));
        let l = rng.range(3, mlen);
        if d <= i {
            for k in 0..l {
                v[i + k] = v[i - d + k];
            }
        }
        i += rng.range(every / 2 + 1, every + every / 2 + 2) + l;
    }
    v
}

pub fn gen(rng: &mut Rng, class: usize, n: usize) -> Vec<u8> {
    match class % NUM_CLASSES {
        0 => vec![0u8; n],
        1 => vec![rng.byte(); n],
        2 => {
            let p = *rng.pick(&PERIODS);
            let pat = rng.bytes(p);
            (0..n).map(|i| pat[i % p]).collect()
        }
        3 => (0..n).map(|_| b"ab"[rng.below(2)]).collect(),
        4 => (0..n).map(|_| b"acgt"[rng.below(4)]).collect(),
        5 => (0..n).map(|_| b"0123456789abcdef"[rng.below(16)]).collect(),
        6 => rng.bytes(n),
        7 => sparse(rng, n, 1, 8191, 40, 6),
        8 => sparse(rng, n, 8192, 32768, 40, 6),
        9 => {
            let half = n / 2;
            let x = rng.bytes(half);
            let mut v = x.clone();
            v.extend_from_slice(&x);
            while v.len() < n {
                v.push(rng.byte());
            }
            v
        }
        10 => {
            // X ++ junk(d) ++ X
            let xl = (n / 4).max(1).min(4096);
            let x = rng.bytes(xl);
            let mut v = x.clone();
            let junk = n.saturating_sub(2 * xl);
            v.extend_from_slice(&rng.bytes(junk));
            v.extend_from_slice(&x);
            v.truncate(n.max(1));
            v.truncate(n);
            v
        }
        11 => text(rng, n),
        12 => {
            let a = n / 2;
            let mut v = rng.bytes(a);
            v.extend_from_slice(&text(rng, n - a));
            v
        }
        13 => {
            let mut v = Vec::with_capacity(n);
            while v.len() < n {
                let b = rng.byte();
                let l = 1 + rng.size_biased(600);
                for _ in 0..l {
                    v.push(b);
                }
            }
            v.truncate(n);
            v
        }
        14 => (0..n).map(|_| rng.below(200) as u8).collect(),
        16 => lazy_chains(rng, n),
        17 => window_edge(rng, n),
        18 => rare_periodic(rng, n),
        _ => {
            let mut v = Vec::with_capacity(n);
            while v.len() < n {
                let seg = 1 + rng.size_biased(n.min(20000));
                let c = if rng.chance(1, 8) { 16 } else if rng.chance(1, 8) { 17 } else { rng.below(15) };
                let part = gen(rng, c, seg);
                v.extend_from_slice(&part);
            }
            v.truncate(n);
            v
        }
    }
}

/// X ++ junk ++ X with the second copy exactly `d` bytes after the first (distance `d`).
pub fn repeat_at_distance(rng: &mut Rng, xlen: usize, d: usize, tail: usize) -> Vec<u8> {
    assert!(d >= xlen);
    let x = rng.bytes(xlen);
    let mut v = x.clone();
    v.extend_from_slice(&rng.bytes(d - xlen));
    v.extend_from_slice(&x);
    v.extend_from_slice(&rng.bytes(tail));
    v
}

/// Stress input for lazy matching: mostly incompressible bytes in which a match found at position
/// p is repeatedly beaten by a longer match at p+1 (chains of lazy upgrades). Each round first
/// lays down a "dictionary" of overlapping, growing snippets of random probe strings (separated
/// by random bytes), then the probe strings themselves followed by random filler.
pub fn lazy_chains(rng: &mut Rng, n: usize) -> Vec<u8> {
    let mut out = Vec::with_capacity(n + 64);
    while out.len() < n {
        let pairs = 50 + rng.below(350);
        let depth = 2 + rng.below(4);
        let first = 3 + rng.below(3);
        let grow = 2 + rng.below(2);
        let filler = rng.below(9);
        let plen = first + (depth - 1) * (grow + 1) + depth;
        let mut probes: Vec<Vec<u8>> = Vec::with_capacity(pairs);
        for _ in 0..pairs {
            let p: Vec<u8> = (0..plen).map(|_| 1 + (rng.below(255) as u8)).collect();
            for j in 0..depth {
                let start = j;
                let end = (start + first + j * grow).min(plen);
                out.extend_from_slice(&p[start..end]);
                out.push(1 + rng.below(255) as u8);
            }
            probes.push(p);
        }
        for p in &probes {
            out.extend_from_slice(p);
            for _ in 0..filler {
                out.push(1 + rng.below(255) as u8);
            }
        }
    }
    out.truncate(n);
    out
}

/// Matches at the far edge of the 32 KiB window. A case-paired 64-symbol alphabet (the pairs
/// differ only in bit 5, which trigram hashes tend to drop) filled at random, then, from offset
/// 32 KiB on, planted repeats of 4..=200 bytes whose distance lies within a few bytes of the
/// window limits (32768, 32768 - 258 +- k, 32768 - 4096*j): half of them with the *first* byte
/// of the copy case-flipped (same hash bucket, not a match at that position), and often with the
/// byte one maximum match length ahead made equal to the first byte, so that any stale or
/// off-by-one view of the circular dictionary turns into a wrong byte.
pub fn window_edge(rng: &mut Rng, n: usize) -> Vec<u8> {
    const ALPHA: &[u8; 64] = b"abcdefghijklmnopqrstuvwxyzABCDEFGHIJKLMNOPQRSTUVWXYZ@`[{\\|]}^~_\x7f";
    let mut v: Vec<u8> = (0..n).map(|_| ALPHA[rng.below(64)]).collect();
    let mut x = 32_768 + rng.below(64);
    while x + 300 < n {
        let d = match rng.below(6) {
            0 => 32_768 - rng.below(4),
            1 | 2 => 32_768 - 258 + 3 - rng.below(8),
            3 => 32_768 - 4096 * (1 + rng.below(3)) + 2 - rng.below(5),
            4 => 32_768 - rng.below(300),
            _ => 32_768 - 258 - rng.below(4),
        };
        let l = 4 + rng.below(197);
        if d <= x {
            for k in 1..l {
                v[x + k] = v[x - d + k];
            }
            v[x] = if rng.bool() { v[x - d] ^ 0x20 } else { v[x - d] };
            if rng.chance(2, 3) && l < 257 {
                v[x + 257] = v[x];
            }
        }
        x += l + 60 + rng.below(700);
    }
    v
}

/// Low-entropy filler (6 symbols, so that only a few hundred of the 32768 trigram hash buckets
/// are ever touched and every position has a pending lazy match of moderate length) with rare
/// 3..=8-byte strings of high bytes planted at X and again exactly 65536 (also 32768, 131072)
/// bytes later: between the two occurrences nothing else hashes into their buckets, so the
/// 16-bit position tables of the match finder are revisited exactly one full period later.
pub fn rare_periodic(rng: &mut Rng, n: usize) -> Vec<u8> {
    let alpha: Vec<u8> = (0..6).map(|_| rng.below(0x60) as u8 & 0xef).collect();
    let mut v: Vec<u8> = (0..n).map(|_| alpha[rng.below(6)]).collect();
    let mut x = 300 + rng.below(3000);
    let mut id = 0u32;
    while x + 16 < n {
        let l = 3 + rng.below(6);
        id += 1;
        let s: Vec<u8> = (0..l).map(|k| 0x80 | ((id >> (7 * (k % 3))) as u8 & 0x7f) ^ (k as u8 * 0x11 & 0x6f)).collect();
        let period = *rng.pick(&[65_536usize, 65_536, 65_536, 32_768, 131_072, 65_535, 65_537]);
        let reps = 1 + rng.below(3);
        for r in 0..=reps {
            let at = x + r * period;
            if at + l < n {
                v[at..at + l].copy_from_slice(&s);
            }
        }
        x += 150 + rng.below(1500);
    }
    v
}
