pub mod data;
pub mod grammar;
pub mod faults;
