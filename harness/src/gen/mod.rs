pub mod data;
pub mod grammar;
