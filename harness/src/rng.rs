//! Small deterministic PRNG (xoshiro256** seeded through SplitMix64).
//! Every case derives its own generator from (VERIF_SEED, property, tier, case index),
//! so a case can be replayed alone and sharding only partitions case indices.

#[derive(Clone)]
pub struct Rng {
    s: [u64; 4],
}

fn splitmix(x: &mut u64) -> u64 {
    *x = x.wrapping_add(0x9E37_79B9_7F4A_7C15);
    let mut z = *x;
    z = (z ^ (z >> 30)).wrapping_mul(0xBF58_476D_1CE4_E5B9);
    z = (z ^ (z >> 27)).wrapping_mul(0x94D0_49BB_1331_11EB);
    z ^ (z >> 31)
}

pub fn fnv1a(bytes: &[u8]) -> u64 {
    let mut h: u64 = 0xcbf2_9ce4_8422_2325;
    for &b in bytes {
        h ^= b as u64;
        h = h.wrapping_mul(0x0000_0100_0000_01B3);
    }
    h
}

/// Incremental hasher used for "distinct case" accounting.
#[derive(Clone, Copy)]
pub struct Hasher(pub u64);
impl Hasher {
    pub fn new() -> Self {
        Hasher(0xcbf2_9ce4_8422_2325)
    }
    pub fn bytes(&mut self, b: &[u8]) -> &mut Self {
        for &x in b {
            self.0 ^= x as u64;
            self.0 = self.0.wrapping_mul(0x0000_0100_0000_01B3);
        }
        self.u64(b.len() as u64)
    }
    pub fn u64(&mut self, v: u64) -> &mut Self {
        for i in 0..8 {
            self.0 ^= (v >> (i * 8)) & 0xff;
            self.0 = self.0.wrapping_mul(0x0000_0100_0000_01B3);
        }
        self
    }
    pub fn finish(&self) -> u64 {
        let mut x = self.0;
        splitmix(&mut x)
    }
}

impl Rng {
    pub fn new(seed: u64) -> Rng {
        let mut x = seed;
        Rng {
            s: [
                splitmix(&mut x),
                splitmix(&mut x),
                splitmix(&mut x),
                splitmix(&mut x),
            ],
        }
    }

    pub fn for_case(seed: u64, prop: &str, tier: &str, case: u64) -> Rng {
        let mut h = Hasher::new();
        h.u64(seed).bytes(prop.as_bytes()).bytes(tier.as_bytes()).u64(case);
        Rng::new(h.finish())
    }

    /// Derive an independent child generator.
    pub fn fork(&mut self) -> Rng {
        Rng::new(self.next())
    }

    pub fn next(&mut self) -> u64 {
        let r = self.s[1].wrapping_mul(5).rotate_left(7).wrapping_mul(9);
        let t = self.s[1] << 17;
        self.s[2] ^= self.s[0];
        self.s[3] ^= self.s[1];
        self.s[1] ^= self.s[2];
        self.s[0] ^= self.s[3];
        self.s[2] ^= t;
        self.s[3] = self.s[3].rotate_left(45);
        r
    }

    /// Uniform in 0..n (n > 0).
    pub fn below(&mut self, n: usize) -> usize {
        debug_assert!(n > 0);
        ((self.next() as u128 * n as u128) >> 64) as usize
    }

    /// Uniform in lo..=hi.
    pub fn range(&mut self, lo: usize, hi: usize) -> usize {
        lo + self.below(hi - lo + 1)
    }

    pub fn chance(&mut self, num: u32, den: u32) -> bool {
        (self.next() % den as u64) < num as u64
    }

    pub fn bool(&mut self) -> bool {
        self.next() & 1 == 1
    }

    pub fn byte(&mut self) -> u8 {
        (self.next() >> 24) as u8
    }

    pub fn pick<'a, T>(&mut self, xs: &'a [T]) -> &'a T {
        &xs[self.below(xs.len())]
    }

    pub fn fill(&mut self, buf: &mut [u8]) {
        for ch in buf.chunks_mut(8) {
            let v = self.next().to_le_bytes();
            ch.copy_from_slice(&v[..ch.len()]);
        }
    }

    pub fn bytes(&mut self, n: usize) -> Vec<u8> {
        let mut v = vec![0u8; n];
        self.fill(&mut v);
        v
    }

    /// Log-uniform-ish size in 0..=max, biased to small values.
    pub fn size_biased(&mut self, max: usize) -> usize {
        if max == 0 {
            return 0;
        }
        let bits = 64 - (max as u64).leading_zeros() as usize;
        let b = self.below(bits + 1);
        let cap = if b >= 63 { usize::MAX } else { (1usize << b).min(max) };
        self.below(cap.min(max) + 1)
    }

    pub fn shuffle<T>(&mut self, xs: &mut [T]) {
        for i in (1..xs.len()).rev() {
            let j = self.below(i + 1);
            xs.swap(i, j);
        }
    }
}
