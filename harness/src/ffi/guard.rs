//! Guard-page buffers: an mmap'ed region whose last byte (or first byte) abuts a PROT_NONE page,
//! so that any access outside the declared range faults (SIGSEGV) instead of silently succeeding.

pub struct Guarded {
    base: *mut u8,
    total: usize,
    ptr: *mut u8,
    len: usize,
}

const PAGE: usize = 4096;

impl Guarded {
    /// `at_end`: buffer ends right before an inaccessible page; otherwise it starts right
    /// after one.
    pub fn new(len: usize, at_end: bool) -> Guarded {
        let data_pages = (len + PAGE - 1) / PAGE + 1;
        let total = (data_pages + 2) * PAGE;
        unsafe {
            let base = libc::mmap(std::ptr::null_mut(), total, libc::PROT_READ | libc::PROT_WRITE, libc::MAP_PRIVATE | libc::MAP_ANONYMOUS, -1, 0) as *mut u8;
            assert!(base as isize != -1, "mmap failed");
            // first and last page inaccessible
            libc::mprotect(base as *mut libc::c_void, PAGE, libc::PROT_NONE);
            libc::mprotect(base.add(total - PAGE) as *mut libc::c_void, PAGE, libc::PROT_NONE);
            let ptr = if at_end { base.add(total - PAGE - len) } else { base.add(PAGE) };
            Guarded { base, total, ptr, len }
        }
    }
    pub fn from_slice(data: &[u8], at_end: bool) -> Guarded {
        let mut g = Guarded::new(data.len(), at_end);
        g.as_mut_slice().copy_from_slice(data);
        g
    }
    pub fn ptr(&self) -> *mut u8 {
        self.ptr
    }
    pub fn len(&self) -> usize {
        self.len
    }
    pub fn as_slice(&self) -> &[u8] {
        unsafe { std::slice::from_raw_parts(self.ptr, self.len) }
    }
    pub fn as_mut_slice(&mut self) -> &mut [u8] {
        unsafe { std::slice::from_raw_parts_mut(self.ptr, self.len) }
    }
}

impl Drop for Guarded {
    fn drop(&mut self) {
        unsafe {
            libc::munmap(self.base as *mut libc::c_void, self.total);
        }
    }
}
