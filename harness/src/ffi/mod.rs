pub mod zlib;
