pub mod zlib;
pub mod guard;
