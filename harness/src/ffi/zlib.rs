//! System zlib (1.2.13) as an independent secondary oracle / producer. Only with feature
//! `sys-oracles`; otherwise every entry point reports "absent".

#![allow(non_camel_case_types, dead_code)]

#[cfg(feature = "sys-oracles")]
mod sys {
    use libc::{c_char, c_int, c_uint, c_ulong, c_void};

    #[repr(C)]
    pub struct z_stream {
        pub next_in: *const u8,
        pub avail_in: c_uint,
        pub total_in: c_ulong,
        pub next_out: *mut u8,
        pub avail_out: c_uint,
        pub total_out: c_ulong,
        pub msg: *const c_char,
        pub state: *mut c_void,
        pub zalloc: *mut c_void,
        pub zfree: *mut c_void,
        pub opaque: *mut c_void,
        pub data_type: c_int,
        pub adler: c_ulong,
        pub reserved: c_ulong,
    }

    #[link(name = "z")]
    extern "C" {
        pub fn zlibVersion() -> *const c_char;
        pub fn inflateInit2_(s: *mut z_stream, wbits: c_int, ver: *const c_char, size: c_int) -> c_int;
        pub fn inflate(s: *mut z_stream, flush: c_int) -> c_int;
        pub fn inflateEnd(s: *mut z_stream) -> c_int;
        pub fn deflateInit2_(
            s: *mut z_stream,
            level: c_int,
            method: c_int,
            wbits: c_int,
            mem: c_int,
            strategy: c_int,
            ver: *const c_char,
            size: c_int,
        ) -> c_int;
        pub fn deflate(s: *mut z_stream, flush: c_int) -> c_int;
        pub fn deflateEnd(s: *mut z_stream) -> c_int;
        pub fn adler32(a: c_ulong, buf: *const u8, len: c_uint) -> c_ulong;
        pub fn crc32(a: c_ulong, buf: *const u8, len: c_uint) -> c_ulong;
    }
}

pub fn available() -> bool {
    cfg!(feature = "sys-oracles")
}

#[derive(Debug, Clone, PartialEq, Eq)]
pub enum ZResult {
    /// output, bytes consumed (total_in)
    Ok(Vec<u8>, usize),
    /// zlib return code (negative), bytes consumed, output so far
    Err(i32, usize, Vec<u8>),
    /// ran out of input (Z_BUF_ERROR / needs more)
    Truncated(usize, Vec<u8>),
    Absent,
}

/// Inflate with zlib. `wbits`: 8..15 zlib, -8..-15 raw, 0 = trust the header's window size.
/// `out_chunk`: output granted per call (small values force a genuinely sliding window).
#[cfg(feature = "sys-oracles")]
pub fn inflate(data: &[u8], wbits: i32, out_chunk: usize, max_out: usize) -> ZResult {
    use sys::*;
    unsafe {
        let mut s: z_stream = std::mem::zeroed();
        let r = inflateInit2_(&mut s, wbits, zlibVersion(), std::mem::size_of::<z_stream>() as i32);
        if r != 0 {
            return ZResult::Err(r, 0, Vec::new());
        }
        s.next_in = data.as_ptr();
        s.avail_in = data.len() as u32;
        let mut out = Vec::new();
        let mut buf = vec![0u8; out_chunk.max(1)];
        let res = loop {
            s.next_out = buf.as_mut_ptr();
            s.avail_out = buf.len() as u32;
            let r = inflate(&mut s, 0);
            let n = buf.len() - s.avail_out as usize;
            out.extend_from_slice(&buf[..n]);
            if r == 1 {
                break ZResult::Ok(std::mem::take(&mut out), s.total_in as usize);
            }
            if r < 0 && r != -5 {
                break ZResult::Err(r, s.total_in as usize, std::mem::take(&mut out));
            }
            if out.len() > max_out {
                break ZResult::Truncated(s.total_in as usize, std::mem::take(&mut out));
            }
            if r == -5 || (s.avail_in == 0 && n == 0) {
                // no progress possible
                if s.avail_in == 0 {
                    break ZResult::Truncated(s.total_in as usize, std::mem::take(&mut out));
                }
                if n == 0 && r == -5 {
                    break ZResult::Err(r, s.total_in as usize, std::mem::take(&mut out));
                }
            }
        };
        inflateEnd(&mut s);
        res
    }
}

#[cfg(not(feature = "sys-oracles"))]
pub fn inflate(_data: &[u8], _wbits: i32, _out_chunk: usize, _max_out: usize) -> ZResult {
    ZResult::Absent
}

/// Deflate with zlib. strategy: 0 default, 1 filtered, 2 huffman, 3 rle, 4 fixed.
/// `flush_every`: if non-zero, issue a flush of kind `flush_kind` (1 partial, 2 sync, 3 full,
/// 5 block) after every that many input bytes.
#[cfg(feature = "sys-oracles")]
pub fn deflate(
    data: &[u8],
    level: i32,
    wbits: i32,
    mem: i32,
    strategy: i32,
    flush_every: usize,
    flush_kind: i32,
) -> Option<Vec<u8>> {
    use sys::*;
    unsafe {
        let mut s: z_stream = std::mem::zeroed();
        let r = deflateInit2_(
            &mut s,
            level,
            8,
            wbits,
            mem,
            strategy,
            zlibVersion(),
            std::mem::size_of::<z_stream>() as i32,
        );
        if r != 0 {
            return None;
        }
        let mut out = Vec::new();
        let mut buf = vec![0u8; 65536];
        let mut pos = 0usize;
        loop {
            let chunk = if flush_every == 0 { data.len() - pos } else { flush_every.min(data.len() - pos) };
            s.next_in = data.as_ptr().add(pos);
            s.avail_in = chunk as u32;
            pos += chunk;
            let fl = if pos == data.len() { 4 } else { flush_kind };
            loop {
                s.next_out = buf.as_mut_ptr();
                s.avail_out = buf.len() as u32;
                let r = deflate(&mut s, fl);
                let n = buf.len() - s.avail_out as usize;
                out.extend_from_slice(&buf[..n]);
                if r == 1 {
                    deflateEnd(&mut s);
                    return Some(out);
                }
                if r < 0 && r != -5 {
                    deflateEnd(&mut s);
                    return None;
                }
                if s.avail_out != 0 {
                    break;
                }
            }
            if pos == data.len() && fl != 4 {
                // unreachable: fl is Finish at the end
            }
        }
    }
}

#[cfg(not(feature = "sys-oracles"))]
pub fn deflate(
    _data: &[u8],
    _level: i32,
    _wbits: i32,
    _mem: i32,
    _strategy: i32,
    _flush_every: usize,
    _flush_kind: i32,
) -> Option<Vec<u8>> {
    None
}

#[cfg(feature = "sys-oracles")]
pub fn adler32(start: u32, data: &[u8]) -> Option<u32> {
    let mut a = start as libc::c_ulong;
    for ch in data.chunks(1 << 30) {
        a = unsafe { sys::adler32(a, ch.as_ptr(), ch.len() as u32) };
    }
    Some(a as u32)
}
#[cfg(not(feature = "sys-oracles"))]
pub fn adler32(_start: u32, _data: &[u8]) -> Option<u32> {
    None
}

#[cfg(feature = "sys-oracles")]
pub fn crc32(start: u32, data: &[u8]) -> Option<u32> {
    let mut a = start as libc::c_ulong;
    for ch in data.chunks(1 << 30) {
        a = unsafe { sys::crc32(a, ch.as_ptr(), ch.len() as u32) };
    }
    Some(a as u32)
}
#[cfg(not(feature = "sys-oracles"))]
pub fn crc32(_start: u32, _data: &[u8]) -> Option<u32> {
    None
}
